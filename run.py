#!/venv/bin/python
"""Entry point: run.py <Cxx> [--tier quick|thorough]  |  run.py --replay <file>

Exit 0: property held on everything explored (KNOWN-FINDING lines may be printed).
Exit 1: `VIOLATION property=<id> replay=<path>` printed for every new violation class.
"""
import argparse
import importlib
import json
import os
import sys

os.environ.setdefault("PYTHONHASHSEED", "0")
HERE = os.path.dirname(os.path.abspath(__file__))
sys.path.insert(0, HERE)

from vf import core  # noqa: E402


def main():
    ap = argparse.ArgumentParser()
    ap.add_argument("prop", nargs="?")
    ap.add_argument("--tier", default=os.environ.get("VERIF_TIER", "quick"), choices=["quick", "thorough"])
    ap.add_argument("--replay")
    ap.add_argument("--selftest", action="store_true")
    ap.add_argument("--only", default=None, help="comma separated sub-explorations (debugging)")
    args = ap.parse_args()
    seed = int(os.environ.get("VERIF_SEED", "0") or 0)
    core.bind_repo()
    if args.selftest:
        from vf import selftest
        sys.exit(selftest.main())
    if args.replay:
        data = json.load(open(args.replay))
        mod = importlib.import_module(f"vf.checks.{data['property'].lower()}")
        res = mod.replay(data["case"])
        print(json.dumps(res, indent=1, default=str))
        bad = bool(res.get("violations"))
        if bad:
            print(f"VIOLATION property={data['property']} replay={args.replay}")
        sys.exit(1 if bad else 0)
    prop = args.prop.upper()
    mod = importlib.import_module(f"vf.checks.{prop.lower()}")
    run = core.Run(prop, args.tier, seed, level=getattr(mod, "LEVEL", "model_checking"))
    run.only = set(args.only.split(",")) if args.only else None
    try:
        mod.run(run)
    finally:
        rc = run.finish()
    sys.exit(rc)


if __name__ == "__main__":
    main()
