"""Shared runner infrastructure: choice-tree explorer, accounting, known findings,
evidence and replay artefacts, process pool.

Everything here is deterministic: no clocks (except wall_s in the evidence), no random
numbers, no dependence on hash seeds (workers run with whatever seed the parent has; all
merging is by index order and all sets are sorted before iteration).
"""
import json
import multiprocessing as mp
import os
import shutil
import signal
import sys
import time
import traceback

VERIF = os.path.dirname(os.path.dirname(os.path.abspath(__file__)))
REPO = os.environ.get("VERIF_REPO", "/repo")


def bind_repo():
    """Make `import coco` resolve to the tree under test (default /repo)."""
    if sys.path[0] != REPO:
        sys.path.insert(0, REPO)
    for name in list(sys.modules):
        if name == "coco" or name.startswith("coco."):
            mod = sys.modules[name]
            f = getattr(mod, "__file__", "") or ""
            if not f.startswith(REPO + "/"):
                del sys.modules[name]


# --------------------------------------------------------------------------------------
# Choice-tree explorer (stateless, replay based, optional deviation bound)
# --------------------------------------------------------------------------------------


class Skip(Exception):
    """Raised by a builder to discard the current leaf (not a case)."""


class ReplayDivergence(Exception):
    pass


class Chooser:
    __slots__ = ("prefix", "trace", "labels")

    def __init__(self, prefix=()):
        self.prefix = prefix
        self.trace = []  # (choice, arity)
        self.labels = []

    def pick(self, n, label=None):
        i = len(self.trace)
        c = self.prefix[i] if i < len(self.prefix) else 0
        if c >= n:
            raise ReplayDivergence(f"choice {c} out of range {n} at point {i} ({label})")
        self.trace.append((c, n))
        self.labels.append(label)
        return c

    def choose(self, options, label=None):
        options = list(options)
        if not options:
            raise Skip()
        return options[self.pick(len(options), label)]

    def flag(self, label=None):
        return self.pick(2, label) == 1

    @property
    def choices(self):
        return tuple(c for c, _ in self.trace)


class Explorer:
    """Enumerates every complete choice sequence of `build(ch)` exactly once.

    With max_dev = d only sequences with at most d non-default (non-zero) choices are
    enumerated ("bound deviations, not depth").  states/transitions count the nodes and
    edges of the explored choice tree.
    """

    def __init__(self, build, max_dev=None, roots=None):
        """roots: explore only the subtrees below these choice prefixes (used to split one choice tree over worker
        processes: the subtrees below different first deviations are disjoint)."""
        self.build = build
        self.max_dev = max_dev
        self.roots = list(roots) if roots is not None else [()]
        self.states = 1 if roots is None else 0
        self.transitions = 0
        self.leaves = 0
        self.skipped = 0

    def __iter__(self):
        stack = list(reversed(self.roots))
        while stack:
            prefix = stack.pop()
            ch = Chooser(prefix)
            try:
                case = self.build(ch)
                ok = True
            except Skip:
                case = None
                ok = False
            trace = ch.trace
            if len(trace) < len(prefix):
                raise ReplayDivergence("builder consumed fewer choices than the prefix")
            new_edges = len(trace) - len(prefix) + (1 if prefix else 0)
            self.transitions += new_edges
            self.states += new_edges
            devs = sum(1 for c, _ in trace[: len(prefix)] if c)
            alts = []
            for i in range(len(prefix), len(trace)):
                c, n = trace[i]
                if self.max_dev is None or devs + 1 <= self.max_dev:
                    base = tuple(cc for cc, _ in trace[:i])
                    for alt in range(n - 1, 0, -1):
                        alts.append(base + (alt,))
                if c:
                    devs += 1
            # push so that the simplest (earliest position, smallest alt) is explored last
            # in stack order -> reverse to explore simplest first
            stack.extend(reversed(alts))
            if ok:
                self.leaves += 1
                yield case, ch.choices
            else:
                self.skipped += 1


# --------------------------------------------------------------------------------------
# Known findings
# --------------------------------------------------------------------------------------


class Findings:
    def __init__(self, prop):
        path = os.path.join(VERIF, "known_findings.json")
        self.entries = []
        self.fixed = []
        if os.path.exists(path):
            data = json.load(open(path))
            self.entries = [e for e in data.get("findings", []) if e["property"] == prop]
            self.fixed = [e for e in data.get("fixed", []) if prop in e]
        self.hits = {e["id"]: 0 for e in self.entries}
        self.first = {}

    def match(self, symptom, features):
        fs = set(features)
        for e in self.entries:
            if symptom not in (e.get("symptoms") or [e["symptom"]]):
                continue
            if not set(e["pattern"]) <= fs:
                continue
            if any(x in fs for x in e.get("unless", [])):
                continue
            return e
        return None


# --------------------------------------------------------------------------------------
# Run: accounting + verdict
# --------------------------------------------------------------------------------------


class Run:
    def __init__(self, prop, tier, seed, level="model_checking"):
        self.prop = prop
        self.tier = tier
        self.seed = seed
        self.level = level
        self.t0 = time.time()
        self.states = 0
        self.transitions = 0
        self.evaluations = 0  # executions of the real code compared against the reference
        self.distinct = set()  # hashes of distinct outcomes / cases (bounded)
        self.distinct_n = 0
        self.counters = {}
        self.samples = []
        self.violations = []  # (symptom, features, case, detail)
        self.known_hits = {}
        self.findings = Findings(prop)
        self.notes = []
        self.rule = ""
        self.assumptions = []
        self.exhaustive = True
        self.caps = []
        self.parts = {}
        self.scratch = None

    # -- accounting -------------------------------------------------------------------
    def count(self, key, n=1):
        self.counters[key] = self.counters.get(key, 0) + n

    def add_explorer(self, ex):
        self.states += ex.states
        self.transitions += ex.transitions

    def sample(self, case, limit=6):
        if len(self.samples) < limit:
            self.samples.append(case)

    def part(self, name, **kw):
        d = self.parts.setdefault(name, {})
        for k, v in kw.items():
            d[k] = d.get(k, 0) + v if isinstance(v, (int, float)) and not isinstance(v, bool) else v

    # -- verdicts ---------------------------------------------------------------------
    def violation(self, symptom, features, case, detail=""):
        e = self.findings.match(symptom, features)
        if e is not None:
            self.findings.hits[e["id"]] += 1
            self.findings.first.setdefault(e["id"], case)
            return False
        self.violations.append(
            {"symptom": symptom, "features": sorted(features), "case": case, "detail": detail}
        )
        return True

    # -- output -----------------------------------------------------------------------
    def scratch_dir(self):
        if self.scratch is None:
            base = "/dev/shm" if os.path.isdir("/dev/shm") and os.access("/dev/shm", os.W_OK) else os.path.join(VERIF, ".scratch")
            self.scratch = os.path.join(base, f"verif_{self.prop}_{os.getpid()}")
            os.makedirs(self.scratch, exist_ok=True)
        return self.scratch

    def finish(self):
        wall = time.time() - self.t0
        if self.scratch and os.path.isdir(self.scratch):
            shutil.rmtree(self.scratch, ignore_errors=True)
        # known findings
        for e in self.findings.entries:
            n = self.findings.hits[e["id"]]
            if n:
                print(f"KNOWN-FINDING: property={self.prop} {e['id']}: {e['what']} ({n} cases this run)")
            else:
                print(f"note: known finding {e['id']} of {self.prop} matched no case in this run/tier")
        replay_paths = []
        if self.violations and os.environ.get("VERIF_DEBUG"):
            groups = {}
            for v in self.violations:
                groups.setdefault((v["symptom"], tuple(v["features"])), []).append(v)
            for k, vs in sorted(groups.items()):
                print("GROUP", k, len(vs), "|", str(vs[0]["detail"])[:int(os.environ.get("VERIF_DEBUG_WIDTH", "260"))].replace("\n", " / "))
        if self.violations:
            rdir = os.path.join(os.environ.get("VERIF_EVIDENCE_DIR") or os.path.join(VERIF, "replays"), self.prop)
            os.makedirs(rdir, exist_ok=True)
            # group by symptom+features, report the first (simplest) of each group
            seen = {}
            for v in self.violations:
                key = (v["symptom"], tuple(v["features"]))
                seen.setdefault(key, []).append(v)
            for i, (key, vs) in enumerate(sorted(seen.items(), key=lambda kv: (len(json.dumps(kv[1][0]["case"], default=str)), kv[0]))):
                if i >= 25:
                    break
                v = vs[0]
                path = os.path.join(rdir, f"{self.prop}_{i:02d}_{key[0].replace(':', '_').replace('/', '_')[:40]}.json")
                with open(path, "w") as f:
                    json.dump(
                        {"property": self.prop, "symptom": v["symptom"], "features": v["features"],
                         "case": v["case"], "detail": v["detail"], "similar_cases": len(vs)},
                        f, indent=1, default=str)
                replay_paths.append(path)
                print(f"VIOLATION property={self.prop} replay={path}")
                print(f"  symptom={v['symptom']} features={v['features']} similar={len(vs)}")
                d = v["detail"]
                if d:
                    print("  " + str(d)[:1500].replace("\n", "\n  "))
        cov = {
            "states": max(1, self.states),
            "transitions": max(1, self.transitions),
            "traces_validated_against_impl": self.evaluations,
            "evaluations": max(1, self.evaluations),
            "distinct_nontrivial": self.distinct_n if self.distinct_n else len(self.distinct),
            "rule": self.rule,
            "samples": self.samples or ["(none)"],
            "exhaustive": bool(self.exhaustive and not self.caps),
            "caps": self.caps,
            "counters": dict(sorted(self.counters.items())),
            "parts": self.parts,
            "known_findings_matched": {k: v for k, v in self.findings.hits.items()},
            "repo": REPO,
        }
        ev = {
            "property_id": self.prop,
            "tier": self.tier,
            "seed": self.seed,
            "level": self.level,
            "coverage": cov,
            "assumptions": self.assumptions,
            "wall_s": round(wall, 2),
            "violations": len(self.violations),
        }
        evdir = os.environ.get("VERIF_EVIDENCE_DIR") or os.path.join(VERIF, "evidence")
        os.makedirs(evdir, exist_ok=True)
        with open(os.path.join(evdir, f"{self.prop}.json"), "w") as f:
            json.dump(ev, f, indent=1, default=str)
        print(
            f"{self.prop} tier={self.tier} seed={self.seed} states={cov['states']} transitions={cov['transitions']} "
            f"executions={self.evaluations} distinct={cov['distinct_nontrivial']} violations={len(self.violations)} "
            f"wall={wall:.1f}s"
        )
        for k, v in sorted(self.counters.items()):
            print(f"  {k}={v}")
        return 1 if self.violations else 0


# --------------------------------------------------------------------------------------
# Process pool
# --------------------------------------------------------------------------------------

_WORK = None


def _call(args):
    i, chunk = args
    try:
        return i, _WORK(chunk), None
    except BaseException:
        return i, None, traceback.format_exc()


def pmap(fn, items, chunk=64, procs=None):
    """Ordered parallel map over chunks of `items`; fn(list) -> list/any. Results are
    yielded in index order so the outcome is independent of scheduling."""
    global _WORK
    items = list(items)
    chunks = [items[i : i + chunk] for i in range(0, len(items), chunk)]
    procs = procs or min(int(os.environ.get("VERIF_PROCS", "16")), os.cpu_count() or 1)
    if procs <= 1 or len(chunks) <= 1:
        for c in chunks:
            yield fn(c)
        return
    _WORK = fn
    ctx = mp.get_context("fork")
    with ctx.Pool(procs) as pool:
        for i, res, err in pool.imap(_call, list(enumerate(chunks))):
            if err:
                raise RuntimeError("worker failed:\n" + err)
            yield res


class Alarm:
    """Wall-clock guard for a single call that normally takes milliseconds."""

    class Timeout(Exception):
        pass

    def __init__(self, seconds):
        self.seconds = seconds

    def _h(self, *a):
        raise Alarm.Timeout()

    def __enter__(self):
        self.old = signal.signal(signal.SIGALRM, self._h)
        signal.alarm(self.seconds)

    def __exit__(self, *a):
        signal.alarm(0)
        signal.signal(signal.SIGALRM, self.old)
        return False


def cube(run, dims):
    """Enumerate the full product of `dims` (list of (name, values)) as a choice tree,
    accounting its nodes/edges in `run`. Yields dicts."""
    import itertools

    names = [n for n, _ in dims]
    vals = [list(v) for _, v in dims]
    prod = 1
    nodes = 1
    for v in vals:
        prod *= len(v)
        nodes += prod
    run.states += nodes
    run.transitions += nodes - 1
    for combo in itertools.product(*vals):
        yield dict(zip(names, combo))
