"""Differential semantics: run a Color BASIC source under the DECB model and its translation
under the BASIC09 model, compare observable behaviour.  Verdicts are three-valued."""
import math

from vf import tool
from vf.b09 import interp as I
from vf.b09 import runtime as R
from vf.b09 import syntax as S
from vf.decb import model as D


def close(a, b):
    if isinstance(a, str) or isinstance(b, str):
        return a == b
    if isinstance(a, bool) or isinstance(b, bool):
        return a == b
    try:
        return math.isclose(float(a), float(b), rel_tol=1e-9, abs_tol=1e-9)
    except (TypeError, ValueError):
        return False


def norm_events(trace, side):
    """-> list of comparable events: ('P', items, newline) and ('I', prompt, names)"""
    out = []
    for ev in trace:
        if ev[0] == "PRINT":
            items, nl = D.normalize_print(ev[1])
            out.append(("P", items, nl))
        elif ev[0] == "INPUT":
            names = tuple(n.replace("ARR_", "") for n in ev[2])
            out.append(("I", ev[1], names))
    return out


def events_equal(a, b):
    """compare two normalised event lists; returns (equal, undecided)"""
    if len(a) != len(b):
        return False, False
    und = False
    for x, y in zip(a, b):
        if x[0] != y[0]:
            return False, False
        if x[0] == "P":
            if ("?",) in x[1] or ("?",) in y[1]:
                und = True
                continue
            if x[2] != y[2] or len(x[1]) != len(y[1]):
                return False, False
            for p, q in zip(x[1], y[1]):
                if p == ("?",) or q == ("?",):
                    und = True
                    continue
                if p[0] == "tab" and q[0] == "tab" and (not isinstance(p[1], int) or not isinstance(q[1], int)):
                    und = True
                    continue
                if p != q:
                    if NUMFMT_INSENSITIVE and {p[0], q[0]} == {"s", "raw"}:
                        try:
                            if abs(float(p[1].strip().rstrip(".") or "x") - float(q[1].strip().rstrip(".") or "y")) < 1e-9:
                                continue
                        except (ValueError, AttributeError):
                            pass
                    return False, False
        else:
            if x != y:
                return False, False
    return True, und


NUMFMT_INSENSITIVE = False  # C01 compares values, not BASIC09's number format (set by the check)


class Verdict:
    __slots__ = ("kind", "symptom", "detail", "out", "decb", "b09")

    def __init__(self, kind, symptom="", detail="", out=None, decb=None, b09=None):
        self.kind = kind  # agree | violation | noverdict | refused | outside
        self.symptom = symptom
        self.detail = detail
        self.out = out
        self.decb = decb
        self.b09 = b09


def compare(source, opts=None, inputs=None, script_factory=None, strict_init=None, decb_horizon=400, check_store=True, check_stop=True, vars_of_interest=None):
    """Three-valued comparison. Where the BASIC09 model is uncertain about string slices reaching past the end of a string,
    both plausible behaviours are executed and a verdict is given only when they agree on it."""
    v = compare1(source, opts, inputs, script_factory, strict_init, decb_horizon, check_store, check_stop, vars_of_interest, None)
    if v.kind != "noverdict" or v.symptom not in ("b09-unspec", "unspec-values", "prefix"):
        return v
    vs = [compare1(source, opts, inputs, script_factory, strict_init, decb_horizon, check_store, check_stop, vars_of_interest, {"str_past_end": w}) for w in ("clamp", "error")]
    if vs[0].kind == vs[1].kind and vs[0].kind in ("agree", "violation") and vs[0].symptom == vs[1].symptom:
        return vs[0]
    if vs[0].kind == vs[1].kind == "violation":
        # the translation deviates under either behaviour, only in a different way
        w = vs[0]
        w.detail = f"{w.detail} [if a slice past the end is an error instead: {vs[1].symptom}: {vs[1].detail}]"
        return w
    return v


def compare1(source, opts, inputs, script_factory, strict_init, decb_horizon, check_store, check_stop, vars_of_interest, world):
    opts = dict(opts or {})
    inputs = list(inputs or [])
    sd = script_factory() if script_factory else None
    d = D.run_decb(source, inputs=list(inputs), script=sd, horizon=decb_horizon)
    if d["status"] == "outside":
        return Verdict("outside", "decb-outside", d["detail"], decb=d)
    r = tool.convert(source, **opts)
    if not r.ok:
        return Verdict("refused", r.kind, r.detail, decb=d)
    try:
        S.parse(r.text)
    except S.B09SyntaxError as e:
        return Verdict("noverdict", "b09-unparsable", str(e), out=r.text, decb=d)
    if d["status"] == "decb-error":
        return Verdict("outside", "decb-error", d["detail"], out=r.text, decb=d)
    if d["status"] == "abort:unspec":
        return Verdict("noverdict", "decb-unspec", d["detail"], out=r.text, decb=d)
    sb = script_factory() if script_factory else None
    strict = opts.get("initialize_vars", False) if strict_init is None else strict_init
    b = R.run_b09(r.text, inputs=list(inputs), script=sb, strict_init=strict, horizon=20 * max(d.get("steps", 0), 1) + 2000, size=opts.get("default_str_storage", 32), world=world)
    st = b["status"]
    if st == "abort:unspec":
        return Verdict("noverdict", "b09-unspec", b["detail"], out=r.text, decb=d, b09=b)
    if st == "abort:uninit":
        return Verdict("violation", "uninitialised-read", f"the translated program reads {b['detail']} before anything assigned it", out=r.text, decb=d, b09=b)
    if st == "abort:uninit-tmp":
        return Verdict("violation", "tmp-read-before-assign", f"temporary {b['detail']} is read but never assigned in this execution", out=r.text, decb=d, b09=b)
    if st == "abort:b09-type-error":
        return Verdict("violation", "b09-type-error", b["detail"], out=r.text, decb=d, b09=b)
    if st == "abort:param":
        return Verdict("violation", "b09-param-mismatch", b["detail"], out=r.text, decb=d, b09=b)
    if st.startswith("abort:") and st != "abort:horizon":
        return Verdict("noverdict", st, b["detail"], out=r.text, decb=d, b09=b)
    de = norm_events(d["trace"], "d")
    be = norm_events(b["trace"], "b")
    if d["status"] == "abort:horizon":
        # DECB did not terminate within its horizon: traces must agree on the common prefix
        n = min(len(de), len(be))
        eq, und = events_equal(de[:n], be[:n])
        if not eq:
            return Verdict("violation", "trace-differs", first_diff(de, be), out=r.text, decb=d, b09=b)
        return Verdict("agree" if not und else "noverdict", "prefix", out=r.text, decb=d, b09=b)
    if st == "abort:horizon":
        return Verdict("violation", "b09-nontermination", f"Color BASIC stops after {d.get('steps')} statements ({d['how']}); the translation is still running after {b.get('steps')} steps", out=r.text, decb=d, b09=b)
    if st == "b09-error":
        code = b.get("code")
        return Verdict("violation", "b09-runtime-error", f"Color BASIC runs to completion but the translation stops with {b['detail']}", out=r.text, decb=d, b09=b)
    eq, und = events_equal(de, be)
    if not eq:
        return Verdict("violation", "trace-differs", first_diff(de, be), out=r.text, decb=d, b09=b)
    if check_stop and d["how"] != b["how"]:
        return Verdict("violation", "stop-differs", f"Color BASIC ends by {d['how']}, the translation by {b['how']}", out=r.text, decb=d, b09=b)
    if check_store:
        env = b["env"]
        for name, val in sorted(d["vars"].items()):
            if vars_of_interest is not None and name not in vars_of_interest:
                continue
            bv = env.get(name.lower())
            if val is I.UNSPEC or bv is I.UNSPEC:
                und = True
                continue
            if bv is None:
                if (val == 0.0 or val == ""):
                    continue
                return Verdict("violation", "value-differs", f"{name} = {val!r} in Color BASIC but is never assigned in the translation", out=r.text, decb=d, b09=b)
            if isinstance(bv, list):
                continue
            if not close(val, bv):
                return Verdict("violation", "value-differs", f"{name} = {val!r} in Color BASIC but {bv!r} in the translation", out=r.text, decb=d, b09=b)
        for name, arr in sorted(d["arrays"].items()):
            bn = "arr_" + name.lower()
            cell = (b.get("env") or {}).get(bn)
            if cell is None or not isinstance(cell, list):
                continue
            dims = [x + 1 for x in arr["dims"]]
            for idx, val in sorted(arr["data"].items()):
                flat = 0
                for i, dd in zip(idx, dims):
                    flat = flat * dd + i
                if flat >= len(cell):
                    return Verdict("violation", "value-differs", f"{name}{idx} does not exist in the translation (array too small)", out=r.text, decb=d, b09=b)
                bv = cell[flat]
                if val is I.UNSPEC or bv is I.UNSPEC:
                    und = True
                    continue
                if bv is None:
                    if val in (0.0, ""):
                        continue
                    return Verdict("violation", "value-differs", f"{name}{idx} = {val!r} in Color BASIC but unassigned in the translation", out=r.text, decb=d, b09=b)
                if not close(val, bv):
                    return Verdict("violation", "value-differs", f"{name}{idx} = {val!r} in Color BASIC but {bv!r} in the translation", out=r.text, decb=d, b09=b)
    return Verdict("noverdict" if und else "agree", "unspec-values" if und else "", out=r.text, decb=d, b09=b)


def first_diff(de, be):
    n = min(len(de), len(be))
    for i in range(n):
        if de[i] != be[i]:
            return f"event {i}: Color BASIC {de[i]!r} vs translation {be[i]!r}"
    return f"Color BASIC produces {len(de)} observable events, the translation {len(be)}; first extra: {(de[n:] or be[n:])[0]!r}"
