"""Conformance anchors for the reference models (run by MANIFEST.setup_cmd and cheap enough
to run before every check)."""
import os
import re


def main():
    failures = []
    for name, fn in ANCHORS:
        try:
            fn()
        except Exception as e:  # noqa
            failures.append(f"{name}: {type(e).__name__}: {e}")
    for f in failures:
        print("SELFTEST FAILURE", f)
    print(f"selftest: {len(ANCHORS) - len(failures)}/{len(ANCHORS)} anchors hold")
    return 1 if failures else 0


def _img():
    from vf.img import formats as F
    assert F.rgb(0) == (0, 0, 0) and F.rgb(63) == (255, 255, 255) and F.rgb(36) == (255, 0, 0) and F.rgb(9) == (0, 0, 255)
    assert F.parse_pnm(b"P6\n2 1\n255\n" + bytes(6))[1:4] == (2, 1, 3)


def token_table():
    """High-bit-terminated names of the BASIC09 binary on the repository's OS-9 disk image."""
    from vf import core
    path = os.path.join(core.REPO, "playground", "NOS9_6809_L2_v030300_coco3_80d.dsk")
    d = open(path, "rb").read()
    i = d.find(b"ALL RIGHTS RESERVED")
    assert i > 0, "BASIC09 banner not found in the disk image"
    seg = d[i + 19: i + 1400]
    names, cur = [], b""
    for b in seg:
        c = b & 0x7F
        if 32 <= c < 127:
            cur += bytes([c])
            if b & 0x80:
                names.append(cur.decode())
                cur = b""
        else:
            cur = b""
    words = [n for n in names if re.fullmatch(r"[A-Z][A-Z0-9]*\$?", n) and len(n) >= 2]
    return words


def _reserved_words():
    from vf.b09 import syntax as S
    words = set(token_table())
    # the table starts with PARAM and ends with DIR; everything between that looks like a word is a BASIC09 word
    assert "PARAM" in words and "PROCEDURE" in words and "ENDEXIT" in words and "LXOR" in words, sorted(words)[:20]
    model = set(S.RESERVED)
    missing = {w for w in words if w not in model and w in set(S.STATEMENT_WORDS + S.FUNCTION_WORDS) | words and len(w) > 1}
    missing = {w for w in words if w not in model}
    extra = {w for w in model if w not in words}
    assert not missing, f"words of the BASIC09 binary missing from the model: {sorted(missing)}"
    assert not extra, f"model reserves words the BASIC09 binary does not have: {sorted(extra)}"
    for w in ("IF", "ON", "TO", "DO", "PI", "SQ", "OR"):
        assert w in model
    assert "ERRNUM" not in words and "INKEY" not in words


def _library_parses():
    from vf import core
    from vf.b09 import syntax as S
    text = open(os.path.join(core.REPO, "coco", "resources", "ecb.b09"), encoding="latin-1").read()
    procs = S.parse(re.sub(r"(?i)STRING<<>>", "STRING", text))
    assert len(procs) >= 40, len(procs)
    assert all(p.name for p in procs)


def _decb_facts():
    from vf.decb import model as D

    def val(expr, pre=""):
        m = D.Machine(f"10 {pre}Z={expr}\n")
        m.run()
        return m.vars["Z"]

    def sval(expr):
        m = D.Machine(f"10 Z$={expr}\n")
        m.run()
        return m.vars["Z$"]
    facts = [("-2^2", -4), ("2^3^2", 64), ("NOT 1 AND 2", 2), ("NOT 0", -1), ("1=1", -1), ("1=2", 0), ("2+3*4", 14), ("(2+3)*4", 20), ("7 AND 3", 3), ("5 OR 2", 7), ("-3*2", -6),
             ("INT(-1.5)", -2), ("FIX(-1.5)", -1), ("INT(1.5)", 1), ("SGN(-3)", -1), ("ABS(-3)", 3), ('INSTR(2,"ABCABC","BC")', 2), ('INSTR(3,"ABCABC","BC")', 5), ('INSTR(1,"ABC","Z")', 0),
             ('LEN("ABC")', 3), ('ASC("A")', 65), ('VAL("12")', 12), ('VAL("X")', 0), ("1<2 AND 2<3", -1), ("NOT 1=1", 0), ("2-3-4", -5), ("2^-1", 0.5), ("8/4/2", 1), ("-2-3", -5), ("1 OR 2 AND 4", 1)]
    for e, want in facts:
        got = val(e)
        assert abs(got - want) < 1e-9, f"{e} = {got}, documented {want}"
    sf = [('STR$(5)', " 5"), ('STR$(-2.5)', "-2.5"), ('LEFT$("HELLO",2)', "HE"), ('RIGHT$("HELLO",2)', "LO"), ('MID$("HELLO",2,3)', "ELL"), ('MID$("HI",5,1)', ""), ('CHR$(65)', "A"),
          ('HEX$(255)', "FF"), ('STRING$(3,"AB")', "AAA"), ('LEFT$("AB",5)', "AB"), ('"A"+"B"', "AB")]
    for e, want in sf:
        got = sval(e)
        assert got == want, f"{e} = {got!r}, documented {want!r}"
    # control flow facts
    r = D.run_decb('10 FOR I=5 TO 1:PRINT "B":NEXT\n20 PRINT I\n')
    assert [ev[0] for ev in r["trace"]] == ["PRINT", "PRINT"] and r["vars"]["I"] == 6.0, "FOR 5 TO 1 runs once"
    r = D.run_decb('10 A=1:B=0:IF A THEN IF B THEN PRINT "X" ELSE PRINT "Y"\n')
    assert r["trace"][0][1][0][1] == "Y", "ELSE binds to the nearest IF"
    r = D.run_decb('10 A=0:IF A THEN PRINT "X":PRINT "Y"\n20 PRINT "Z"\n')
    assert [ev[1][0][1] for ev in r["trace"]] == ["Z"], "a false IF skips the rest of the line"
    r = D.run_decb('10 READ A,B$,C\n20 DATA 1, X Y ,\n')
    assert r["vars"] == {"A": 1.0, "B$": "X Y ", "C": 0.0}, r["vars"]
    r = D.run_decb('10 A=1:B=5\n20 IFA=1THENPRINTB;"X  Y"ELSEPRINT"N"\n30 FORI=1TO2:NEXTI\n')
    assert r["trace"][0][1][0] == ("s", " 5 ") and r["trace"][0][1][2] == ("s", "X  Y") and r["vars"]["I"] == 3.0, "reserved words are tokens wherever they occur; blanks in literals are content"
    r = D.run_decb('10 ON 3 GOTO 20,30\n15 PRINT "F":END\n20 END\n30 END\n')
    assert r["trace"][0][1][0][1] == "F", "ON falls through when out of range"


def _b09_facts():
    from vf.b09 import runtime as R

    def val(expr):
        r = R.run_b09(f"procedure t\ndim z: real\nz := {expr}\n", with_library=False)
        assert r["status"] == "ok", r
        return r["env"]["z"]
    facts = [("-2^2", 4), ("2^3^2", 64), ("2+3*4", 14), ("8/4/2", 1), ("2-3-4", -5), ("LAND(7,3)", 3), ("LOR(5,2)", 7), ("LNOT(0)", -1), ("INT(-1.5)", -1), ("INT(1.5)", 1), ("SQ(3)", 9), ("$10", 16), ("$FFFF", -1),
             ("LEN(\"ABC\")", 3), ("ASC(\"A\")", 65)]
    for e, want in facts:
        got = val(e)
        assert abs(float(got) - want) < 1e-9, f"BASIC09 {e} = {got}, expected {want}"
    r = R.run_b09('procedure t\ndim b: boolean\ndim z: real\nb := NOT(1 = 2) AND 2 = 2\nif b then\nz := 1\nelse\nz := 2\nendif\n', with_library=False)
    assert r["env"]["z"] == 1.0
    r = R.run_b09('procedure t\ndim i,n: integer\nn := 0\nfor i = 5 to 1\nn := n + 1\nnext i\n', with_library=False)
    assert r["env"]["n"] == 0, "BASIC09 FOR is top-tested"
    r = R.run_b09('procedure t\ndim z: real\nz := 0\nloop\nz := z + 1\nexitif z >= 3 then\nz := z * 10\nendexit\nendloop\n', with_library=False)
    assert r["env"]["z"] == 30.0


ANCHORS = [("img-colour-and-pnm", _img), ("b09-reserved-words-equal-binary-token-table", _reserved_words), ("b09-parser-accepts-ecb.b09", _library_parses), ("decb-documented-facts", _decb_facts),
           ("b09-documented-facts", _b09_facts)]
