"""Conformance anchors for the reference models (run by MANIFEST.setup_cmd)."""


def main():
    failures = []
    for name, fn in ANCHORS:
        try:
            fn()
        except Exception as e:  # noqa
            failures.append(f"{name}: {type(e).__name__}: {e}")
    for f in failures:
        print("SELFTEST FAILURE", f)
    print(f"selftest: {len(ANCHORS) - len(failures)}/{len(ANCHORS)} anchors hold")
    return 1 if failures else 0


def _img_roundtrip():
    from vf.img import formats as F
    assert F.rgb(0) == (0, 0, 0) and F.rgb(63) == (255, 255, 255) and F.rgb(36) == (255, 0, 0) and F.rgb(9) == (0, 0, 255)
    assert F.parse_pnm(b"P6\n2 1\n255\n" + bytes(6))[1:4] == (2, 1, 3)


ANCHORS = [("img-colour-and-pnm", _img_roundtrip)]
