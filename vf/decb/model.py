"""Color BASIC (DECB / Extended / Super Extended) reference model: lexer, Pratt parser with
the Microsoft operator table, statement interpreter.  Three-valued like the BASIC09 model:
UNSPEC where I am not certain of the real behaviour.

Input programs are expected in the canonical spaced spelling the generators produce
(tokens separated by blanks where Color BASIC's keyword crunching could merge them)."""
import math
import re

from vf.b09.interp import UNSPEC, decb_num_image

KEYWORDS = {
    "FOR", "TO", "STEP", "NEXT", "IF", "THEN", "ELSE", "GOTO", "GOSUB", "RETURN", "ON", "END", "STOP", "DIM", "DATA", "READ", "RESTORE", "INPUT", "LINE", "PRINT", "LET", "REM",
    "AND", "OR", "NOT", "CLS", "SOUND", "POKE", "SET", "RESET", "PLAY", "CLEAR", "TRON", "TROFF", "WIDTH", "LOCATE", "ATTR", "PALETTE", "RGB", "CMP", "HSCREEN", "HCLS", "HCOLOR",
    "HCIRCLE", "HLINE", "HSET", "HRESET", "HPAINT", "HPRINT", "HDRAW", "HBUFF", "HGET", "HPUT", "PSET", "PRESET", "BRK", "ERR", "TAB",
}
NUMFUNCS = {"ABS", "ATN", "COS", "EXP", "FIX", "INT", "LOG", "SGN", "SIN", "SQR", "TAN", "RND", "PEEK", "LEN", "ASC", "VAL", "INSTR", "JOYSTK", "BUTTON", "POINT", "VARPTR", "ERNO"}
STRFUNCS = {"CHR$", "LEFT$", "RIGHT$", "MID$", "STR$", "HEX$", "STRING$", "INKEY$"}

TOK = re.compile(r'\s*(?:(?P<str>"[^"]*"?)|(?P<hex>&\s*H\s*[0-9A-F]*)|(?P<num>(?:\d+\.?\d*|\.\d+)(?:\s*E(?!LSE)\s*[+-]?\s*\d*)?)|(?P<id>[A-Z][A-Z0-9]*\$?)|(?P<op><=|>=|<>|><|=<|=>|[-+*/^=<>(),;:@?\'#]))')


STR_WITH_PRINT_BLANK = False  # C05 only: mimic the known STR$ trailing blank so that call order stays observable


class DecbError(Exception):
    """Color BASIC run-time error (?SN, ?TM, ?FC, ?OD, ?NF, ?RG, ?BS, ?/0, ?OV, ?DD, ?UL ...)."""

    def __init__(self, code, msg=""):
        super().__init__(f"?{code} ERROR {msg}")
        self.code = code


class Outside(Exception):
    """Program is outside the modelled fragment (syntax not handled)."""


class Abort(Exception):
    def __init__(self, kind, detail=""):
        super().__init__(f"{kind}: {detail}")
        self.kind = kind
        self.detail = detail


class End(Exception):
    def __init__(self, how):
        self.how = how


def lex(s):
    from vf.gen.features import decb_split
    s = decb_split(s)  # reserved words are tokens wherever they occur (IFA=1THENPRINTB)
    toks = []
    pos = 0
    while pos < len(s):
        m = TOK.match(s, pos)
        if not m:
            if s[pos:].strip() == "":
                break
            raise Outside(f"cannot tokenise {s[pos:pos+10]!r}")
        pos = m.end()
        kind = m.lastgroup
        text = m.group(kind)
        if kind == "id" and text == "REM":
            toks.append(("rem", s[pos:]))
            break
        if kind == "op" and text == "'":
            # the apostrophe is the token :REM - it also ends the statement in front of it
            if toks and toks[-1] != ("op", ":"):
                toks.append(("op", ":"))
            toks.append(("rem", s[pos:]))
            break
        if kind == "id" and text == "DATA":
            # DATA swallows up to the next ':' outside quotes
            rest = s[pos:]
            q = False
            end = len(rest)
            for i, ch in enumerate(rest):
                if ch == '"':
                    q = not q
                elif ch == ":" and not q:
                    end = i
                    break
            toks.append(("data", rest[:end]))
            pos += end
            continue
        toks.append((kind, text))
    return toks


# ------------------------------------------------------------------------------ parser
BIN = {"^": 127, "*": 123, "/": 123, "+": 121, "-": 121, "=": 100, "<": 100, ">": 100, "<=": 100, ">=": 100, "<>": 100, "><": 100, "=<": 100, "=>": 100, "AND": 80, "OR": 70}


class P:
    def __init__(self, toks):
        self.t = toks
        self.i = 0

    def peek(self):
        return self.t[self.i] if self.i < len(self.t) else (None, None)

    def next(self):
        tk = self.peek()
        if tk[0] is None:
            raise Outside("unexpected end of statement")
        self.i += 1
        return tk

    def at(self, *texts):
        k, x = self.peek()
        return x in texts and k in ("op", "id")

    def need(self, text):
        if not self.at(text):
            raise Outside(f"expected {text}, got {self.peek()[1]!r}")
        self.i += 1

    def end(self):
        return self.i >= len(self.t)

    # expressions -> tuples
    def expr(self, minprec=0):
        k, x = self.peek()
        if x == "NOT" and k == "id":
            self.i += 1
            left = ("not", self.expr(90))
        elif k == "op" and x in ("-", "+"):
            self.i += 1
            left = ("neg" if x == "-" else "pos", self.expr(125))
        else:
            left = self.primary()
        while True:
            k, x = self.peek()
            if k not in ("op", "id") or x not in BIN:
                break
            prec = BIN[x]
            if prec <= minprec:
                break
            self.i += 1
            right = self.expr(prec)
            left = ("bin", x, left, right)
        return left

    def primary(self):
        k, x = self.next()
        if k == "num":
            t = re.sub(r"\s+", "", x)
            mant, _, ex = t.partition("E")
            mant = mant if mant not in ("", ".") else "0"
            ex = ex if ex not in ("", "+", "-") else "0"
            try:
                v = float(mant + "E" + ex)
            except ValueError:
                raise Outside("number")
            if v == float("inf"):
                raise Outside("overflow literal")
            return ("num", v)
        if k == "hex":
            h = re.sub(r"[&H\s]", "", x)
            return ("num", float(int(h, 16)) if h else 0.0)
        if k == "str":
            return ("str", x[1:-1] if x.endswith('"') and len(x) > 1 else x[1:])
        if k == "op" and x == "(":
            e = self.expr()
            self.need(")")
            return ("paren", e)
        if k == "id":
            if x in NUMFUNCS or x in STRFUNCS:
                args = []
                if x not in ("INKEY$", "ERNO"):
                    self.need("(")
                    if x == "VARPTR":
                        args = [self.lvalue()]
                    else:
                        args = [self.expr()]
                        while self.at(","):
                            self.i += 1
                            args.append(self.expr())
                    self.need(")")
                return ("fn", x, args)
            if x in KEYWORDS:
                raise Outside(f"keyword {x} in expression")
            self.i -= 1
            return self.lvalue()
        raise Outside(f"unexpected {x!r}")

    def lvalue(self):
        k, x = self.next()
        if k != "id" or x in KEYWORDS or x in NUMFUNCS or x in STRFUNCS:
            raise Outside(f"variable expected, got {x!r}")
        name = x[:-1][:2] + "$" if x.endswith("$") else x[:2]
        subs = None
        if self.at("("):
            self.i += 1
            subs = [self.expr()]
            while self.at(","):
                self.i += 1
                subs.append(self.expr())
            self.need(")")
        return ("var", name, subs)


def split_statements(toks):
    """split a token list on ':' at depth 0 (IF handling happens in parse_stmts)"""
    out, cur = [], []
    for tk in toks:
        if tk == ("op", ":"):
            out.append(cur)
            cur = []
        else:
            cur.append(tk)
    out.append(cur)
    return out


def parse_line_body(toks):
    """-> list of statements; IF nodes own the rest of the line."""
    stmts = []
    i = 0
    n = len(toks)
    start = 0
    depth = 0
    while True:
        # find end of the current simple statement (':' at depth 0), but IF takes the rest
        if start >= n:
            break
        if toks[start] == ("id", "IF"):
            stmts.append(parse_if(toks[start:]))
            return stmts
        j = start
        while j < n and toks[j] != ("op", ":"):
            j += 1
        seg = toks[start:j]
        if seg:
            stmts.append(parse_simple(seg))
        start = j + 1
    return stmts


def parse_if(toks):
    # toks[0] == IF ; find THEN at nesting level: the first THEN
    p = P(toks)
    p.i = 1
    cond = p.expr()
    if p.at("THEN"):
        p.i += 1
    elif p.at("GOTO"):
        pass  # IF c GOTO n
    else:
        raise Outside("IF without THEN")
    rest = toks[p.i:]
    # split rest at the ELSE that belongs to this IF: nearest-IF binding => count nested IFs
    depth = 0
    split = None
    for idx, tk in enumerate(rest):
        if tk == ("id", "IF"):
            depth += 1
        elif tk == ("id", "ELSE"):
            if depth == 0:
                split = idx
                break
            depth -= 1
    then_t = rest if split is None else rest[:split]
    else_t = None if split is None else rest[split + 1:]

    def branch(tl):
        if tl is None:
            return None
        if len(tl) >= 1 and tl[0][0] == "num" and re.fullmatch(r"\d+", tl[0][1]):
            if len(tl) > 1 and tl[1] != ("op", ":"):
                raise Outside("text after THEN <line>")
            # THEN 100 : stmt  -- the rest is unreachable in Color BASIC
            return [("goto", int(tl[0][1]))]
        return parse_line_body(tl)
    return ("if", cond, branch(then_t), branch(else_t))


DEV2 = {"SOUND": ["f", "d"], "POKE": ["a", "v"], "LOCATE": ["x", "y"], "PALETTE": ["pr", "cc"], "HBUFF": ["b", "s"]}


def parse_simple(seg):
    k, x = seg[0]
    p = P(seg)
    if k == "rem":
        return ("rem",)
    if k == "data":
        return ("data", parse_data(x))
    if k == "op" and x == "?":
        k, x = "id", "PRINT"
    if k != "id":
        raise Outside(f"statement starts with {x!r}")
    p.i = 1
    if x == "LET":
        k, x = p.peek()
        p.i = 1
        return parse_assign(p)
    if x == "PRINT":
        at = None
        if p.at("@"):
            p.i += 1
            at = p.expr()
            if p.end():
                return ("print", at, [], True)
            p.need(",")
        items = []
        while not p.end():
            if p.at(";") or p.at(","):
                items.append(("sep", p.next()[1]))
            elif p.at("TAB"):
                p.i += 1
                p.need("(")
                e = p.expr()
                p.need(")")
                items.append(("tab", e))
            else:
                items.append(("e", p.expr()))
        return ("print", at, items, False)
    if x in ("GOTO", "GOSUB"):
        n = p.next()
        return (x.lower(), int(n[1]))
    if x == "ON":
        if p.at("ERR") or p.at("BRK"):
            which = p.next()[1]
            p.need("GOTO")
            return ("onhandler", which, int(p.next()[1]))
        sel = p.expr()
        g = p.next()[1]
        targets = [int(p.next()[1])]
        while p.at(","):
            p.i += 1
            targets.append(int(p.next()[1]))
        return ("on", sel, targets, g == "GOSUB")
    if x == "FOR":
        v = p.lvalue()
        p.need("=")
        a = p.expr()
        p.need("TO")
        b = p.expr()
        s = None
        if p.at("STEP"):
            p.i += 1
            s = p.expr()
        return ("for", v, a, b, s)
    if x == "NEXT":
        vs = []
        while not p.end():
            vs.append(p.lvalue())
            if p.at(","):
                p.i += 1
        return ("next", vs)
    if x in ("END", "STOP", "RETURN", "RESTORE", "TRON", "TROFF", "RGB", "CMP"):
        return (x.lower(),)
    if x == "CLEAR":
        return ("rem",)
    if x == "DIM":
        decls = []
        while True:
            nm = p.next()[1]
            name = nm[:-1][:2] + "$" if nm.endswith("$") else nm[:2]
            dims = None
            if p.at("("):
                p.i += 1
                dims = [p.expr()]
                while p.at(","):
                    p.i += 1
                    dims.append(p.expr())
                p.need(")")
            decls.append((name, dims))
            if p.at(","):
                p.i += 1
                continue
            break
        return ("dim", decls)
    if x == "READ":
        vs = [p.lvalue()]
        while p.at(","):
            p.i += 1
            vs.append(p.lvalue())
        return ("read", vs)
    if x == "INPUT" or x == "LINE":
        line = x == "LINE"
        if line:
            p.need("INPUT")
        prompt = None
        if p.peek()[0] == "str":
            prompt = p.next()[1][1:-1]
            p.need(";")
        vs = [p.lvalue()]
        while p.at(","):
            p.i += 1
            vs.append(p.lvalue())
        return ("input", line, prompt, vs)
    if x == "CLS":
        return ("dev", "CLS", {"c": None if p.end() else p.expr()})
    if x in DEV2:
        a = p.expr()
        p.need(",")
        b = p.expr()
        return ("dev", x, dict(zip(DEV2[x], [a, b])))
    if x == "PALETTE" and False:
        pass
    if x in ("SET", "RESET", "HSET", "HRESET"):
        p.need("(")
        args = [p.expr()]
        while p.at(","):
            p.i += 1
            args.append(p.expr())
        p.need(")")
        return ("dev", x + ("3" if x == "HSET" and len(args) == 3 else ""), dict(zip(["x", "y", "c"], args)))
    if x in ("WIDTH", "HSCREEN", "HCLS"):
        return ("dev", x, {"n": None if p.end() else p.expr()})
    if x == "HCOLOR":
        a = p.expr()
        b = None
        if p.at(","):
            p.i += 1
            b = p.expr()
        return ("dev", x, {"f": a, "b": b})
    if x == "ATTR":
        a = p.expr()
        p.need(",")
        b = p.expr()
        opts = []
        while p.at(","):
            p.i += 1
            opts.append(p.next()[1])
        return ("dev", x, {"f": a, "b": b, "B": "B" in opts, "U": "U" in opts})
    if x in ("PLAY", "HDRAW"):
        return ("dev", x, {"s": p.expr()})
    if x == "HCIRCLE":
        cx, cy = coords(p)
        p.need(",")
        r = p.expr()
        rest = []
        while p.at(","):
            p.i += 1
            if p.at(",") or p.end():
                rest.append(None)
            else:
                rest.append(p.expr())
        rest += [None] * (4 - len(rest))
        return ("dev", x, {"x": cx, "y": cy, "r": r, "c": rest[0], "rt": rest[1], "sp": rest[2], "ep": rest[3]})
    if x == "HLINE":
        src = None
        if p.at("("):
            src = coords(p)
        p.need("-")
        dst = coords(p)
        p.need(",")
        mode = p.next()[1]
        t = "L"
        if p.at(","):
            p.i += 1
            t = p.next()[1]
        return ("dev", x, {"x0": src[0] if src else None, "y0": src[1] if src else None, "x1": dst[0], "y1": dst[1], "m": mode, "t": t, "rd": "d" if src else "r"})
    if x == "HPAINT":
        cx, cy = coords(p)
        c = b = None
        if p.at(","):
            p.i += 1
            c = p.expr()
            if p.at(","):
                p.i += 1
                b = p.expr()
        return ("dev", x, {"x": cx, "y": cy, "c": c, "c0": b})
    if x == "HPRINT":
        cx, cy = coords(p)
        p.need(",")
        return ("dev", x, {"x": cx, "y": cy, "txt": p.expr()})
    if x in ("HGET", "HPUT"):
        a = coords(p)
        p.need("-")
        b = coords(p)
        p.need(",")
        buf = p.expr()
        d = {"x0": a[0], "y0": a[1], "x1": b[0], "y1": b[1], "b": buf}
        if x == "HPUT":
            p.need(",")
            d["a"] = p.next()[1]
        return ("dev", x, d)
    p.i = 0
    return parse_assign(p)


def coords(p):
    p.need("(")
    a = p.expr()
    p.need(",")
    b = p.expr()
    p.need(")")
    return a, b


def parse_assign(p):
    v = p.lvalue()
    p.need("=")
    e = p.expr()
    if not p.end():
        raise Outside("text after assignment")
    return ("let", v, e)


def parse_data(text):
    """DATA items: quoted verbatim; unquoted with leading blanks skipped, trailing kept."""
    items = []
    i = 0
    n = len(text)
    while True:
        while i < n and text[i] == " ":
            i += 1
        if i < n and text[i] == '"':
            j = text.find('"', i + 1)
            if j < 0:
                items.append(("q", text[i + 1:]))
                i = n
            else:
                items.append(("q", text[i + 1:j]))
                i = j + 1
                while i < n and text[i] == " ":
                    i += 1
        else:
            j = i
            while j < n and text[j] != ",":
                j += 1
            items.append(("u", text[i:j]))
            i = j
        if i < n and text[i] == ",":
            i += 1
            continue
        break
    return items


def parse_program(text):
    lines = []
    for raw in re.split(r"[\r\n]+", text.replace("\x00", "")):
        if raw.strip() == "":
            continue
        m = re.match(r"\s*(\d+)\s?(.*)$", raw)
        if not m:
            raise Outside("line without number")
        lines.append((int(m.group(1)), parse_line_body(lex(m.group(2)))))
    nums = [n for n, _ in lines]
    if nums != sorted(set(nums)):
        raise Outside("line numbers not unique ascending")
    return lines


# -------------------------------------------------------------------------- interpreter
def to_int16(x, what="operand"):
    if x is UNSPEC:
        return UNSPEC
    if isinstance(x, str):
        raise DecbError("TM")
    v = math.floor(x)
    if v < -32768 or v > 32767:
        raise DecbError("FC", what)
    return int(v)


class Machine:
    def __init__(self, text, inputs=None, script=None, horizon=400):
        self.lines = parse_program(text)
        self.index = {n: i for i, (n, _) in enumerate(self.lines)}
        self.vars = {}
        self.arrays = {}
        self.trace = []
        self.inputs = list(inputs or [])
        self.script = script
        self.horizon = horizon
        self.steps = 0
        self.gosub = []
        self.fors = []
        self.data = []
        for n, st in self.lines:
            self._collect_data(st)
        self.dp = 0
        self.calls = []  # evaluation log of convertible functions
        self.handlers = {}

    def _collect_data(self, stmts):
        for s in stmts:
            if s[0] == "data":
                self.data += s[1]
            elif s[0] == "if":
                if s[2]:
                    self._collect_data(s[2])
                if s[3]:
                    self._collect_data(s[3])

    # ---- values
    def get(self, v):
        _, name, subs = v
        if subs is None:
            return self.vars.get(name, "" if name.endswith("$") else 0.0)
        arr = self.array(name, len(subs))
        idx = self.subs(arr, subs)
        return arr["data"].get(idx, "" if name.endswith("$") else 0.0)

    def put(self, v, val):
        _, name, subs = v
        if val is not UNSPEC and (isinstance(val, str) != name.endswith("$")):
            raise DecbError("TM")
        if isinstance(val, str) and len(val) > 255:
            raise DecbError("LS")
        if subs is None:
            self.vars[name] = val
        else:
            arr = self.array(name, len(subs))
            arr["data"][self.subs(arr, subs)] = val

    def array(self, name, nd):
        a = self.arrays.get(name)
        if a is None:
            a = {"dims": [10] * nd, "data": {}}
            self.arrays[name] = a
        if len(a["dims"]) != nd:
            raise DecbError("BS")
        return a

    def subs(self, arr, subs):
        idx = []
        for e, d in zip(subs, arr["dims"]):
            v = self.ev(e)
            if v is UNSPEC:
                raise Abort("unspec", "subscript")
            if isinstance(v, str):
                raise DecbError("TM")
            k = math.floor(v)
            if k < 0 or k > d:
                raise DecbError("BS")
            idx.append(int(k))
        return tuple(idx)

    def ev(self, e):
        k = e[0]
        if k == "num":
            return e[1]
        if k == "str":
            return e[1]
        if k == "var":
            return self.get(e)
        if k == "paren":
            return self.ev(e[1])
        if k in ("neg", "pos"):
            v = self.ev(e[1])
            if v is UNSPEC:
                return v
            if isinstance(v, str):
                raise DecbError("TM")
            return -v if k == "neg" else v
        if k == "not":
            v = to_int16(self.ev(e[1]))
            return UNSPEC if v is UNSPEC else float(~v)
        if k == "bin":
            return self.binop(e[1], self.ev(e[2]), self.ev(e[3]))
        if k == "fn":
            return self.fn(e[1], e[2])
        raise Outside(k)

    def binop(self, op, a, b):
        if a is UNSPEC or b is UNSPEC:
            return UNSPEC
        if op in ("AND", "OR"):
            x, y = to_int16(a), to_int16(b)
            return float(x & y) if op == "AND" else float(x | y)
        if op in ("=", "<", ">", "<=", ">=", "<>", "><", "=<", "=>"):
            if isinstance(a, str) != isinstance(b, str):
                raise DecbError("TM")
            if isinstance(a, str) and op not in ("=", "<>", "><") and not (a.isascii() and b.isascii()):
                return UNSPEC
            r = {"=": a == b, "<": a < b, ">": a > b, "<=": a <= b, "=<": a <= b, ">=": a >= b, "=>": a >= b, "<>": a != b, "><": a != b}[op]
            return -1.0 if r else 0.0
        if isinstance(a, str) or isinstance(b, str):
            if op == "+" and isinstance(a, str) and isinstance(b, str):
                if len(a) + len(b) > 255:
                    raise DecbError("LS")
                return a + b
            raise DecbError("TM")
        try:
            if op == "+":
                r = a + b
            elif op == "-":
                r = a - b
            elif op == "*":
                r = a * b
            elif op == "/":
                if b == 0:
                    raise DecbError("/0")
                r = a / b
            else:
                if a == 0 and b < 0:
                    raise DecbError("/0")
                if a < 0 and b != math.floor(b):
                    raise DecbError("FC")
                r = a ** b
        except OverflowError:
            raise DecbError("OV")
        if abs(r) > 1.7e38:
            raise DecbError("OV")
        return float(r)

    def fn(self, name, args):
        if name == "VARPTR":
            return UNSPEC
        if name == "ERNO":
            return UNSPEC
        if name == "INKEY$":
            if self.script is None:
                return UNSPEC
            self.calls.append(("inkey", ()))
            return self.script.answer("inkey", [])
        v = [self.ev(a) for a in args]
        if any(x is UNSPEC for x in v):
            return UNSPEC

        def num(i):
            if isinstance(v[i], str):
                raise DecbError("TM")
            return v[i]

        def st(i):
            if not isinstance(v[i], str):
                raise DecbError("TM")
            return v[i]
        if name in ("JOYSTK", "BUTTON", "POINT"):
            ins = [num(i) for i in range(len(v))]
            if self.script is None:
                return UNSPEC
            key = "ecb_" + name.lower()
            self.calls.append((key, tuple(ins)))
            return self.script.answer(key, ins)
        if name in ("RND", "PEEK"):
            return UNSPEC
        if name == "ABS":
            return abs(num(0))
        if name == "SGN":
            return float((num(0) > 0) - (num(0) < 0))
        if name == "INT":
            self.calls.append(("ecb_int", (num(0),)))
            return float(math.floor(num(0)))
        if name == "FIX":
            return float(math.trunc(num(0)))
        if name == "SQR":
            if num(0) < 0:
                raise DecbError("FC")
            return math.sqrt(num(0))
        if name == "LOG":
            if num(0) <= 0:
                raise DecbError("FC")
            return math.log(num(0))
        if name in ("SIN", "COS", "TAN", "ATN", "EXP"):
            try:
                return {"SIN": math.sin, "COS": math.cos, "TAN": math.tan, "ATN": math.atan, "EXP": math.exp}[name](num(0))
            except OverflowError:
                raise DecbError("OV")
        if name == "LEN":
            return float(len(st(0)))
        if name == "ASC":
            if st(0) == "":
                raise DecbError("FC")
            return float(ord(v[0][0]))
        if name == "VAL":
            self.calls.append(("ecb_val", (st(0),)))
            t = v[0].lstrip(" ")
            m = re.match(r"[+-]?(\d+\.?\d*|\.\d+)(E[+-]?\d+)?", t)
            if t.startswith("&H"):
                return UNSPEC
            if not m:
                return 0.0
            if m.end() != len(t.rstrip(" ")) or m.group(2):
                return UNSPEC  # trailing garbage / exponent: BASIC09's VAL differs in ways I do not model
            return float(m.group(0))
        if name == "INSTR":
            if len(v) == 2:
                v = [1.0] + v
            p = math.floor(num(0))
            s, t = st(1), st(2)
            self.calls.append(("ecb_instr", (float(num(0)), s, t)))
            if p < 1 or p > 255:
                raise DecbError("FC")
            if t == "":
                return UNSPEC
            if p > len(s):
                return 0.0
            i = s.find(t, p - 1)
            return float(i + 1)
        if name == "CHR$":
            n = math.floor(num(0))
            if n < 0 or n > 255:
                raise DecbError("FC")
            return chr(n)
        if name == "LEFT$":
            n = math.floor(num(1))
            if n < 0 or n > 255:
                raise DecbError("FC")
            return st(0)[:n]
        if name == "RIGHT$":
            n = math.floor(num(1))
            if n < 0 or n > 255:
                raise DecbError("FC")
            return st(0)[max(0, len(v[0]) - n):] if n else ""
        if name == "MID$":
            p = math.floor(num(1))
            n = math.floor(num(2)) if len(v) > 2 else 255
            if p < 1 or p > 255 or n < 0 or n > 255:
                raise DecbError("FC")
            return st(0)[p - 1:p - 1 + n]
        if name == "STR$":
            self.calls.append(("ecb_str", (num(0),)))
            img = decb_num_image(num(0))
            return img if (img is UNSPEC or not STR_WITH_PRINT_BLANK) else img + " "
        if name == "HEX$":
            n = math.floor(num(0))
            self.calls.append(("ecb_hex", (num(0),)))
            if n < 0 or n > 65535:
                raise DecbError("FC")
            return "%X" % n
        if name == "STRING$":
            n = math.floor(num(0))
            if n < 0 or n > 255:
                raise DecbError("FC")
            if isinstance(v[1], str):
                if v[1] == "":
                    raise DecbError("FC")
                ch = v[1][0]
            else:
                ch = chr(int(v[1]) & 255)
            self.calls.append(("ecb_string", (float(num(0)), v[1])))
            return ch * n
        raise Outside(name)

    # ---- execution
    def run(self):
        how = "fell-off"
        try:
            self.exec_from(0, None, 0)
        except End as e:
            how = e.how
        return how

    def exec_from(self, li, lst, si):
        """run from line index li, statement list lst (None = the line's own list), statement si."""
        while li < len(self.lines):
            stmts = self.lines[li][1] if lst is None else lst
            jumped = False
            while si < len(stmts):
                self.steps += 1
                if self.steps > self.horizon:
                    raise Abort("horizon")
                s = stmts[si]
                r = self.exec(s, li, stmts, si)
                if r is None:
                    si += 1
                    continue
                kind = r[0]
                if kind == "branch":  # IF took a branch: continue inside it; never comes back
                    stmts, si = r[1], 0
                    continue
                if kind == "jump":
                    li, lst, si = r[1], r[2], r[3]
                    jumped = True
                    break
                if kind == "skipline":
                    si = len(stmts)
            if jumped:
                continue
            li += 1
            lst = None
            si = 0
        return

    def goto(self, n):
        if n not in self.index:
            raise DecbError("UL")
        return ("jump", self.index[n], None, 0)

    def exec(self, s, li, stmts, si):
        k = s[0]
        if k in ("rem", "data", "tron", "troff"):
            return None
        if k == "let":
            # Microsoft BASIC locates the target (evaluating its subscripts) before it evaluates the right-hand side
            tgt = s[1]
            if tgt[2] is not None:
                arr = self.array(tgt[1], len(tgt[2]))
                idx = self.subs(arr, tgt[2])
                val = self.ev(s[2])
                if val is not UNSPEC and (isinstance(val, str) != tgt[1].endswith("$")):
                    raise DecbError("TM")
                arr["data"][idx] = val
            else:
                self.put(tgt, self.ev(s[2]))
            return None
        if k == "print":
            self.do_print(s)
            return None
        if k == "if":
            c = self.ev(s[1])
            if c is UNSPEC:
                raise Abort("unspec", "IF condition")
            if isinstance(c, str):
                raise DecbError("TM")
            br = s[2] if c != 0 else s[3]
            if br is None:
                return ("skipline",)
            return ("branch", br)
        if k == "goto":
            return self.goto(s[1])
        if k == "gosub":
            self.gosub.append((li, stmts if stmts is not self.lines[li][1] else None, si + 1, len(self.fors)))
            if len(self.gosub) > 50:
                raise Abort("horizon", "gosub depth")
            return self.goto(s[1])
        if k == "return":
            if not self.gosub:
                raise DecbError("RG")
            li2, lst2, si2, nf = self.gosub.pop()
            del self.fors[nf:]
            return ("jump", li2, lst2, si2)
        if k == "on":
            v = self.ev(s[1])
            if v is UNSPEC:
                raise Abort("unspec", "ON selector")
            if isinstance(v, str):
                raise DecbError("TM")
            n = math.floor(v)
            if n < 0 or n > 255:
                raise DecbError("FC")
            if 1 <= n <= len(s[2]):
                if s[3]:
                    self.gosub.append((li, stmts if stmts is not self.lines[li][1] else None, si + 1, len(self.fors)))
                return self.goto(s[2][n - 1])
            return None
        if k == "onhandler":
            self.handlers[s[1]] = s[2]
            return None
        if k == "for":
            start, end = self.ev(s[2]), self.ev(s[3])
            step = self.ev(s[4]) if s[4] is not None else 1.0
            if start is UNSPEC or end is UNSPEC or step is UNSPEC:
                raise Abort("unspec", "FOR bounds")
            if s[1][2] is not None:
                raise DecbError("SN")
            self.put(s[1], start)
            name = s[1][1]
            for i, f in enumerate(self.fors):
                if f[0] == name:
                    del self.fors[i:]
                    break
            self.fors.append((name, end, step, li, stmts if stmts is not self.lines[li][1] else None, si + 1))
            return None
        if k == "next":
            names = [v[1] for v in s[1]] or [None]
            for nm in names:
                while True:
                    if not self.fors:
                        raise DecbError("NF")
                    f = self.fors[-1]
                    if nm is None or f[0] == nm:
                        break
                    self.fors.pop()
                name, end, step, li2, lst2, si2 = self.fors[-1]
                v = self.vars.get(name, 0.0)
                if v is UNSPEC:
                    raise Abort("unspec", "FOR variable")
                v = v + step
                self.vars[name] = v
                done = v > end if step >= 0 else v < end
                if not done:
                    return ("jump", li2, lst2, si2)
                self.fors.pop()
            return None
        if k == "end":
            raise End("end")
        if k == "stop":
            raise End("stop")
        if k == "restore":
            self.dp = 0
            return None
        if k == "dim":
            for name, dims in s[1]:
                if dims is None:
                    continue
                if name in self.arrays:
                    raise DecbError("DD")
                ds = []
                for d in dims:
                    v = self.ev(d)
                    if v is UNSPEC or isinstance(v, str) or v < 0:
                        raise DecbError("FC")
                    ds.append(int(math.floor(v)))
                self.arrays[name] = {"dims": ds, "data": {}}
            return None
        if k == "read":
            for v in s[1]:
                if self.dp >= len(self.data):
                    raise DecbError("OD")
                kind, text = self.data[self.dp]
                self.dp += 1
                if v[1].endswith("$"):
                    self.put(v, text)
                else:
                    t = text.strip(" ")
                    if kind == "q":
                        raise DecbError("SN")
                    if t == "":
                        self.put(v, 0.0)
                    elif re.fullmatch(r"[+-]?(\d+\.?\d*|\.\d+)(E[+-]?\d+)?", t):
                        self.put(v, float(t))
                    elif re.fullmatch(r"&H[0-9A-F]+", t):
                        self.put(v, float(int(t[2:], 16)))
                    else:
                        raise DecbError("SN")
            return None
        if k == "input":
            _, line, prompt, vs = s
            ptxt = (prompt or "") + ("" if line else "? ")
            names = []
            for v in vs:
                if not self.inputs:
                    raise Abort("horizon", "input script exhausted")
                raw = self.inputs.pop(0)
                if v[1].endswith("$"):
                    self.put(v, raw)
                else:
                    if re.fullmatch(r"\s*[+-]?(\d+\.?\d*|\.\d+)\s*", raw):
                        self.put(v, float(raw))
                    else:
                        self.put(v, UNSPEC)
                names.append(v[1] + ("()" if v[2] is not None else ""))
            self.trace.append(("INPUT", ptxt, tuple(names)))
            return None
        if k == "dev":
            vals = {}
            for key, e in s[2].items():
                if isinstance(e, tuple):
                    vals[key] = self.ev(e)
                else:
                    vals[key] = e
            self.trace.append(("DEV", s[1], vals))
            return None
        if k in ("rgb", "cmp"):
            self.trace.append(("DEV", k.upper(), {}))
            return None
        raise Outside(k)

    def do_print(self, s):
        _, at, items, at_only = s
        if at is not None:
            self.trace.append(("DEV", "PRINT@", {"location": self.ev(at)}))
            if at_only:
                return
        toks = []
        for kind, x in items:
            if kind == "sep":
                toks.append(("sep", x))
            elif kind == "tab":
                v = self.ev(x)
                toks.append(("tab", UNSPEC if v is UNSPEC else int(math.floor(v))))
            else:
                v = self.ev(x)
                if isinstance(v, str):
                    toks.append(("s", v))
                elif v is UNSPEC:
                    toks.append(("s", UNSPEC))
                else:
                    self.calls.append(("ecb_str", (v,)))
                    img = decb_num_image(v)
                    toks.append(("s", img if img is UNSPEC else img + " "))
        self.trace.append(("PRINT", tuple(toks)))


def normalize_print(toks):
    """token stream -> (items, newline): adjacent strings joined, ';' dropped, ',' kept, tabs kept."""
    out = []
    newline = True
    for i, (k, v) in enumerate(toks):
        if k == "sep":
            if v == ",":
                out.append((",",))
            newline = False if i == len(toks) - 1 else newline
            continue
        newline = True
        if k in ("s", "rawnum"):
            if v is UNSPEC:
                out.append(("?",))
            elif k == "rawnum":
                out.append(("raw", v))
            elif out and out[-1][0] == "s":
                out[-1] = ("s", out[-1][1] + v)
            else:
                out.append(("s", v))
        elif k == "tab":
            out.append(("tab", v))
    out = [o for o in out if o != ("s", "")]
    if toks and toks[-1][0] == "sep":
        newline = False
    return tuple(out), newline


def run_decb(text, inputs=None, script=None, horizon=400):
    res = {"status": "ok", "how": None, "detail": ""}
    try:
        m = Machine(text, inputs=inputs, script=script, horizon=horizon)
    except Outside as e:
        return {"status": "outside", "detail": str(e), "trace": [], "vars": {}, "arrays": {}, "calls": []}
    try:
        res["how"] = m.run()
    except DecbError as e:
        res["status"] = "decb-error"
        res["detail"] = str(e)
        res["code"] = e.code
    except Abort as e:
        res["status"] = "abort:" + e.kind
        res["detail"] = e.detail
    except Outside as e:
        res["status"] = "outside"
        res["detail"] = str(e)
    res["trace"] = m.trace
    res["vars"] = m.vars
    res["arrays"] = m.arrays
    res["calls"] = m.calls
    res["steps"] = m.steps
    return res
