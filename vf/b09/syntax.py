"""BASIC09 reference model, part 1: lexer and structural parser.

Trusted base: Microware BASIC09 reference manual as I read it, bound to the real
implementation by (a) the reserved-word table extracted from the BASIC09 binary on the
repository's OS-9 disk image (selftest) and (b) the requirement that all of
coco/resources/ecb.b09 parses (permissiveness anchor).

The parser is *structural*: labels, statement separation, block nesting, complete
operators and calls, arity of built-ins, closed literals, reserved words.  It does not
type-check (typing lives in vf/b09/typer.py)."""
import re

STATEMENT_WORDS = """PARAM TYPE DIM DATA STOP BYE TRON TROFF PAUSE DEG RAD RETURN LET POKE IF ELSE ENDIF FOR NEXT WHILE
ENDWHILE REPEAT UNTIL LOOP ENDLOOP EXITIF ENDEXIT ON ERROR GOTO GOSUB RUN KILL INPUT PRINT CHD CHX CREATE OPEN SEEK READ
WRITE GET PUT CLOSE RESTORE DELETE CHAIN SHELL BASE REM END BYTE INTEGER REAL BOOLEAN STRING THEN TO STEP DO USING
PROCEDURE""".split()
FUNCTION_WORDS = """ADDR SIZE POS ERR MOD RND SUBSTR PI SIN COS TAN ASN ACS ATN EXP LOG LOG10 SGN ABS SQRT SQR INT FIX FLOAT SQ
PEEK LNOT VAL LEN ASC LAND LOR LXOR TRUE FALSE EOF TRIM$ MID$ LEFT$ RIGHT$ CHR$ STR$ DATE$ TAB NOT AND OR XOR UPDATE EXEC
DIR""".split()
RESERVED = set(STATEMENT_WORDS) | set(FUNCTION_WORDS)

# built-in functions: name -> allowed argument counts
BUILTINS = {
    "ADDR": (1,), "SIZE": (1,), "POS": (0,), "ERR": (0,), "MOD": (2,), "RND": (1,), "SUBSTR": (2, 3), "PI": (0,), "SIN": (1,),
    "COS": (1,), "TAN": (1,), "ASN": (1,), "ACS": (1,), "ATN": (1,), "EXP": (1,), "LOG": (1,), "LOG10": (1,), "SGN": (1,),
    "ABS": (1,), "SQRT": (1,), "SQR": (1,), "INT": (1,), "FIX": (1,), "FLOAT": (1,), "SQ": (1,), "PEEK": (1,), "LNOT": (1,),
    "VAL": (1,), "LEN": (1,), "ASC": (1,), "LAND": (2,), "LOR": (2,), "LXOR": (2,), "TRUE": (0,), "FALSE": (0,), "EOF": (1,),
    "TRIM$": (1,), "MID$": (3,), "LEFT$": (2,), "RIGHT$": (2,), "CHR$": (1,), "STR$": (1,), "DATE$": (0,), "TAB": (1,),
}
STRING_FUNCS = {"TRIM$", "MID$", "LEFT$", "RIGHT$", "CHR$", "STR$", "DATE$", "TAB"}
BOOL_FUNCS = {"TRUE", "FALSE", "EOF"}
TYPE_WORDS = {"BYTE", "INTEGER", "REAL", "BOOLEAN", "STRING"}


class B09SyntaxError(Exception):
    def __init__(self, msg, line=None, text=None):
        super().__init__(msg)
        self.msg = msg
        self.line = line
        self.text = text

    def __str__(self):
        return f"{self.msg} (line {self.line}: {self.text!r})"


# ------------------------------------------------------------------------------ lexer
TOK_RE = re.compile(
    r"""
    (?P<ws>[ \t]+)
  | (?P<comment>\(\*.*)                          # (* ... [*)] runs to end of line
  | (?P<num>(?:\d+\.\d*|\.\d+|\d+)(?:[eE][+-]?\d+)?)
  | (?P<hex>\$[0-9A-Fa-f]+)
  | (?P<str>"(?:[^"]|"")*")
  | (?P<badstr>"[^"]*$)
  | (?P<id>[A-Za-z_][A-Za-z0-9_]*\$?)
  | (?P<op>:=|<>|><|<=|=<|>=|=>|\*\*|[-+*/^=<>(),;:\#.\[\]\\])
  | (?P<bad>.)
    """,
    re.X,
)


class Tok:
    __slots__ = ("kind", "text", "up")

    def __init__(self, kind, text):
        self.kind = kind
        self.text = text
        self.up = text.upper() if kind == "id" else text

    def __repr__(self):
        return f"{self.kind}:{self.text}"


def lex_line(line, lineno):
    toks = []
    pos = 0
    n = len(line)
    while pos < n:
        m = TOK_RE.match(line, pos)
        kind = m.lastgroup
        text = m.group()
        pos = m.end()
        if kind == "ws":
            continue
        if kind == "comment":
            toks.append(Tok("comment", text))
            continue
        if kind == "badstr":
            raise B09SyntaxError("unterminated string literal", lineno, line)
        if kind == "bad":
            raise B09SyntaxError(f"illegal character {text!r}", lineno, line)
        if kind == "id" and text.upper() == "REM":
            toks.append(Tok("comment", line[m.start():]))
            pos = n
            continue
        toks.append(Tok(kind, text))
    return toks


# -------------------------------------------------------------------------------- AST
class Node:
    __slots__ = ("kind", "a", "line", "label")

    def __init__(self, kind, line=None, label=None, **a):
        self.kind = kind
        self.a = a
        self.line = line
        self.label = label

    def __getattr__(self, k):
        try:
            return self.a[k]
        except KeyError:
            raise AttributeError(k)

    def __repr__(self):
        return f"<{self.kind} {self.a}>"


# expressions are tuples: ("num", value, is_int) ("str", s) ("var", name, [subscripts], [(field, [subs])...])
# ("call", NAME, [args]) ("un", op, e) ("bin", op, l, r) ("paren", e) ("bool", v)

BINPREC = {
    "OR": 1, "XOR": 1,
    "AND": 2,
    "=": 3, "<>": 3, "><": 3, "<": 3, ">": 3, "<=": 3, "=<": 3, ">=": 3, "=>": 3,
    "+": 4, "-": 4,
    "*": 5, "/": 5,
    "^": 6, "**": 6,
}
UNARY_PREC = 7  # NOT and unary minus bind tighter than every binary operator


class Parser:
    def __init__(self, text):
        self.text = text
        self.lines = re.split(r"\r\n|\r|\n", text)

    # -- statements ---------------------------------------------------------------
    def parse(self):
        """-> list of procedures: Node('proc', name=, body=[stmts]); text without a procedure
        header yields one procedure with name None."""
        flat = []  # (lineno, label, toks, raw)
        for ln, raw in enumerate(self.lines, 1):
            toks = lex_line(raw, ln)
            if not toks:
                continue
            label = None
            if toks[0].kind == "num" and re.fullmatch(r"\d+", toks[0].text):
                label = int(toks[0].text)
                toks = toks[1:]
                if label < 0 or label > 32767:  # label 0 is tolerated: the tool documents that a referenced line 0 keeps its number
                    raise B09SyntaxError(f"line number {label} out of range 0..32767", ln, raw)
            # split on backslashes
            seg = []
            first = True
            for t in toks:
                if t.kind == "op" and t.text == "\\":
                    flat.append((ln, label if first else None, seg, raw))
                    first = False
                    seg = []
                else:
                    seg.append(t)
            flat.append((ln, label if first else None, seg, raw))
        self.flat = flat
        self.i = 0
        procs = []
        cur = Node("proc", name=None, body=None)
        body, term = self.block(stop=("PROCEDURE",), top=True)
        cur.a["body"] = body
        if body:
            procs.append(cur)
        while self.i < len(self.flat):
            ln, label, toks, raw = self.flat[self.i]
            # PROCEDURE name (names follow the tool's own pattern [A-Za-z0-9_-]+, so '-' is tolerated)
            m = re.match(r"(?i)\s*(?:\d+\s+)?procedure\s+([A-Za-z0-9_$-]+)\s*$", raw)
            if not m:
                raise B09SyntaxError("malformed PROCEDURE header", ln, raw)
            self.i += 1
            body, term = self.block(stop=("PROCEDURE",), top=True)
            procs.append(Node("proc", line=ln, name=m.group(1), body=body))
        return procs

    def first_word(self, toks):
        return toks[0].up if toks and toks[0].kind == "id" else None

    def block(self, stop, top=False):
        """Parse statements until one whose first word is in `stop` (not consumed)."""
        out = []
        while self.i < len(self.flat):
            ln, label, toks, raw = self.flat[self.i]
            if not toks:
                if label is not None:
                    out.append(Node("empty", line=ln, label=label))
                self.i += 1
                continue
            w = self.first_word(toks)
            if w in stop:
                return out, w
            if w in ("ENDIF", "ELSE", "ENDLOOP", "ENDEXIT", "ENDWHILE", "NEXT", "UNTIL", "PROCEDURE") and not (w == "NEXT" and False):
                if w == "PROCEDURE" and top:
                    return out, w
                raise B09SyntaxError(f"unmatched {w}", ln, raw)
            self.i += 1
            self.cur = (ln, raw)
            st = self.statement(ln, label, toks, raw)
            if isinstance(st, list):
                out.extend(st)
            else:
                out.append(st)
        return out, None

    def expect_end(self, word, opener_ln, opener_raw):
        if self.i >= len(self.flat):
            raise B09SyntaxError(f"missing {word} for block opened here", opener_ln, opener_raw)
        ln, label, toks, raw = self.flat[self.i]
        self.i += 1
        return ln, label, toks, raw

    def statement(self, ln, label, toks, raw):
        P = ExprParser(toks, ln, raw)
        w = self.first_word(toks)
        if toks[0].kind == "comment":
            if len(toks) > 1:
                raise B09SyntaxError("text after comment", ln, raw)
            return Node("rem", line=ln, label=label, text=toks[0].text)
        if w == "IF":
            P.pos = 1
            cond = P.expr()
            P.need_word("THEN")
            if P.at_end():
                then, term = self.block(stop=("ELSE", "ENDIF"))
                els = None
                e_ln, e_label, e_toks, e_raw = self.expect_end("ENDIF", ln, raw)
                if term == "ELSE":
                    if len(e_toks) > 1:
                        # ELSE followed by a statement on the same segment
                        self.flat.insert(self.i, (e_ln, None, e_toks[1:], e_raw))
                    els, term2 = self.block(stop=("ENDIF",))
                    e_ln, e_label, e_toks, e_raw = self.expect_end("ENDIF", ln, raw)
                if self.first_word(e_toks) != "ENDIF":
                    raise B09SyntaxError("missing ENDIF", ln, raw)
                if len(e_toks) > 1:
                    raise B09SyntaxError("text after ENDIF", e_ln, e_raw)
                return Node("if", line=ln, label=label, cond=cond, then=then, els=els)
            t = P.peek()
            if t.kind == "num" and re.fullmatch(r"\d+", t.text) and P.pos == len(toks) - 1:
                return Node("ifgoto", line=ln, label=label, cond=cond, target=int(t.text))
            # IF c THEN <statement> ... ENDIF : rest of the segment is the first body statement
            rest = toks[P.pos:]
            self.flat.insert(self.i, (ln, None, rest, raw))
            then, term = self.block(stop=("ELSE", "ENDIF"))
            els = None
            e_ln, e_label, e_toks, e_raw = self.expect_end("ENDIF", ln, raw)
            if term == "ELSE":
                if len(e_toks) > 1:
                    self.flat.insert(self.i, (e_ln, None, e_toks[1:], e_raw))
                els, _ = self.block(stop=("ENDIF",))
                e_ln, e_label, e_toks, e_raw = self.expect_end("ENDIF", ln, raw)
            if self.first_word(e_toks) != "ENDIF" or len(e_toks) > 1:
                raise B09SyntaxError("missing ENDIF", ln, raw)
            return Node("if", line=ln, label=label, cond=cond, then=then, els=els)
        if w == "LOOP":
            if len(toks) > 1:
                raise B09SyntaxError("text after LOOP", ln, raw)
            body, term = self.block(stop=("ENDLOOP",))
            e = self.expect_end("ENDLOOP", ln, raw)
            if self.first_word(e[2]) != "ENDLOOP" or len(e[2]) > 1:
                raise B09SyntaxError("missing ENDLOOP", ln, raw)
            return Node("loop", line=ln, label=label, body=body)
        if w == "EXITIF":
            P.pos = 1
            cond = P.expr()
            P.need_word("THEN")
            if not P.at_end():
                self.flat.insert(self.i, (ln, None, toks[P.pos:], raw))
            body, term = self.block(stop=("ENDEXIT",))
            e = self.expect_end("ENDEXIT", ln, raw)
            if self.first_word(e[2]) != "ENDEXIT" or len(e[2]) > 1:
                raise B09SyntaxError("missing ENDEXIT", ln, raw)
            return Node("exitif", line=ln, label=label, cond=cond, body=body)
        if w == "WHILE":
            P.pos = 1
            cond = P.expr()
            P.need_word("DO")
            if not P.at_end():
                self.flat.insert(self.i, (ln, None, toks[P.pos:], raw))
            body, term = self.block(stop=("ENDWHILE",))
            e = self.expect_end("ENDWHILE", ln, raw)
            if self.first_word(e[2]) != "ENDWHILE" or len(e[2]) > 1:
                raise B09SyntaxError("missing ENDWHILE", ln, raw)
            return Node("while", line=ln, label=label, cond=cond, body=body)
        if w == "REPEAT":
            if len(toks) > 1:
                self.flat.insert(self.i, (ln, None, toks[1:], raw))
            body, term = self.block(stop=("UNTIL",))
            e = self.expect_end("UNTIL", ln, raw)
            if self.first_word(e[2]) != "UNTIL":
                raise B09SyntaxError("missing UNTIL", ln, raw)
            P2 = ExprParser(e[2], e[0], e[3])
            P2.pos = 1
            cond = P2.expr()
            P2.end()
            return Node("repeat", line=ln, label=label, cond=cond, body=body)
        if w == "FOR":
            P.pos = 1
            var = P.lvalue()
            P.need_op("=", ":=")
            start = P.expr()
            P.need_word("TO")
            end = P.expr()
            step = None
            if P.is_word("STEP"):
                P.pos += 1
                step = P.expr()
            P.end()
            body, term = self.block(stop=("NEXT",))
            e = self.expect_end("NEXT", ln, raw)
            if self.first_word(e[2]) != "NEXT":
                raise B09SyntaxError("missing NEXT", ln, raw)
            P2 = ExprParser(e[2], e[0], e[3])
            P2.pos = 1
            if P2.at_end():
                raise B09SyntaxError("NEXT without a variable", e[0], e[3])
            nv = P2.lvalue()
            P2.end()
            if nv[1].upper() != var[1].upper() or nv[2] or var[2]:
                raise B09SyntaxError(f"NEXT {nv[1]} does not match FOR {var[1]}", e[0], e[3])
            return Node("for", line=ln, label=label, var=var, start=start, end=end, step=step, body=body, next_label=e[1], next_line=e[0])
        return self.simple(P, w, ln, label, toks, raw)

    def simple(self, P, w, ln, label, toks, raw):
        def N(kind, **a):
            return Node(kind, line=ln, label=label, **a)
        if w == "GOTO" or w == "GOSUB":
            P.pos = 1
            n = P.linenum()
            P.end()
            return N(w.lower(), target=n)
        if w == "ON":
            P.pos = 1
            if P.is_word("ERROR"):
                P.pos += 1
                if P.at_end():
                    return N("onerror", target=None)
                P.need_word("GOTO")
                n = P.linenum()
                P.end()
                return N("onerror", target=n)
            e = P.expr()
            if P.is_word("GOTO") or P.is_word("GOSUB"):
                kind = P.peek().up
                P.pos += 1
            else:
                raise B09SyntaxError("ON without GOTO/GOSUB", ln, raw)
            targets = [P.linenum()]
            while P.is_op(","):
                P.pos += 1
                targets.append(P.linenum())
            P.end()
            return N("on", sel=e, targets=targets, gosub=(kind == "GOSUB"))
        if w in ("RETURN", "END", "STOP", "BYE", "TRON", "TROFF", "DEG", "RAD", "PAUSE"):
            if len(toks) > 1:
                if w in ("END", "STOP", "PAUSE"):
                    P.pos = 1
                    e = P.expr()
                    P.end()
                    return N(w.lower(), msg=e)
                raise B09SyntaxError(f"text after {w}", ln, raw)
            return N(w.lower(), msg=None)
        if w == "ERROR":
            P.pos = 1
            e = P.expr()
            P.end()
            return N("error", code=e)
        if w == "RESTORE":
            P.pos = 1
            n = None
            if not P.at_end():
                n = P.linenum()
            P.end()
            return N("restore", target=n)
        if w == "BASE":
            P.pos = 1
            t = P.next()
            if t.kind != "num" or t.text not in ("0", "1"):
                raise B09SyntaxError("BASE must be 0 or 1", ln, raw)
            P.end()
            return N("base", value=int(t.text))
        if w == "POKE":
            P.pos = 1
            a = P.expr()
            P.need_op(",")
            b = P.expr()
            P.end()
            return N("poke", addr=a, value=b)
        if w == "RUN":
            P.pos = 1
            t = P.next()
            if t.kind != "id":
                raise B09SyntaxError("RUN needs a procedure name", ln, raw)
            if t.up in RESERVED:
                raise B09SyntaxError(f"reserved word {t.text} used as procedure name", ln, raw)
            args = []
            if P.is_op("("):
                P.pos += 1
                args = P.arglist()
                P.need_op(")")
            P.end()
            return N("run", name=t.text, args=args)
        if w == "PRINT":
            P.pos = 1
            path = None
            using = None
            if P.is_op("#"):
                P.pos += 1
                path = P.expr()
                if not P.at_end():
                    P.need_op(",")
            if P.is_word("USING"):
                P.pos += 1
                using = P.expr()
                if not P.at_end():
                    P.need_op(",", ";")
            items = []  # ("e", expr) | ("sep", ";" or ",")
            while not P.at_end():
                if P.is_op(";") or P.is_op(","):
                    if not items:
                        # BASIC09's output list is expr {sep expr} [sep]: it cannot begin with a separator (the tool emits "" in front of one)
                        raise B09SyntaxError("PRINT list begins with a separator", ln, raw)
                    items.append(("sep", P.next().text))
                else:
                    if items and items[-1][0] == "e":
                        raise B09SyntaxError("PRINT items must be separated by ; or ,", ln, raw)
                    items.append(("e", P.expr()))
            return N("print", path=path, using=using, items=items)
        if w == "INPUT":
            P.pos = 1
            path = None
            prompt = None
            if P.is_op("#"):
                P.pos += 1
                path = P.expr()
                P.need_op(",")
            if P.peek() is not None and P.peek().kind == "str":
                prompt = P.expr_primary()
                P.need_op(",", ";")
            targets = [P.lvalue()]
            while P.is_op(","):
                P.pos += 1
                targets.append(P.lvalue())
            P.end()
            return N("input", path=path, prompt=prompt, targets=targets)
        if w == "READ":
            P.pos = 1
            path = None
            if P.is_op("#"):
                P.pos += 1
                path = P.expr()
                P.need_op(",")
            targets = [P.lvalue()]
            while P.is_op(","):
                P.pos += 1
                targets.append(P.lvalue())
            P.end()
            return N("read", path=path, targets=targets)
        if w == "DATA":
            P.pos = 1
            items = [P.expr()]
            while P.is_op(","):
                P.pos += 1
                items.append(P.expr())
            P.end()
            return N("data", items=items)
        if w in ("DIM", "PARAM"):
            P.pos = 1
            groups = P.decl_groups()
            P.end()
            return N(w.lower(), groups=groups)
        if w == "TYPE":
            P.pos = 1
            t = P.next()
            if t.kind != "id" or t.up in RESERVED:
                raise B09SyntaxError("TYPE needs a name", ln, raw)
            P.need_op("=")
            groups = P.decl_groups()
            P.end()
            return N("type", name=t.text, groups=groups)
        if w in ("PUT", "GET", "CLOSE", "SEEK", "WRITE", "OPEN", "CREATE", "DELETE", "KILL", "CHD", "CHX", "CHAIN", "SHELL"):
            P.pos = 1
            args = P.io_args(w)
            return N("io", op=w, args=args)
        if w == "LET":
            P.pos = 1
            w = None
        if w in RESERVED and w not in FUNCTION_WORDS:
            raise B09SyntaxError(f"reserved word {w} cannot start a statement here", ln, raw)
        if w in RESERVED:
            raise B09SyntaxError(f"reserved word {w} used as a variable", ln, raw)
        # assignment
        target = P.lvalue()
        P.need_op(":=", "=")
        e = P.expr()
        P.end()
        return N("assign", target=target, expr=e)


class ExprParser:
    def __init__(self, toks, ln, raw):
        self.toks = toks
        self.pos = 0
        self.ln = ln
        self.raw = raw

    def err(self, msg):
        return B09SyntaxError(msg, self.ln, self.raw)

    def peek(self):
        return self.toks[self.pos] if self.pos < len(self.toks) else None

    def next(self):
        if self.pos >= len(self.toks):
            raise self.err("unexpected end of statement")
        t = self.toks[self.pos]
        self.pos += 1
        return t

    def at_end(self):
        return self.pos >= len(self.toks)

    def end(self):
        if not self.at_end():
            raise self.err(f"unexpected {self.toks[self.pos].text!r}")

    def is_op(self, *ops):
        t = self.peek()
        return t is not None and t.kind == "op" and t.text in ops

    def is_word(self, w):
        t = self.peek()
        return t is not None and t.kind == "id" and t.up == w

    def need_op(self, *ops):
        if not self.is_op(*ops):
            raise self.err(f"expected {' or '.join(ops)}")
        return self.next().text

    def need_word(self, w):
        if not self.is_word(w):
            raise self.err(f"expected {w}")
        self.pos += 1

    def linenum(self):
        t = self.next()
        if t.kind != "num" or not re.fullmatch(r"\d+", t.text):
            raise self.err("expected a line number")
        return int(t.text)

    def arglist(self):
        args = [self.expr()]
        while self.is_op(","):
            self.pos += 1
            args.append(self.expr())
        return args

    def expr(self, minprec=1):
        left = self.unary()
        while True:
            t = self.peek()
            if t is None:
                break
            op = t.text if t.kind == "op" else (t.up if t.kind == "id" and t.up in ("AND", "OR", "XOR") else None)
            if op is None or op not in BINPREC:
                break
            prec = BINPREC[op]
            if prec < minprec:
                break
            self.pos += 1
            right = self.expr(prec + 1)  # left associative
            left = ("bin", op, left, right)
        return left

    def unary(self):
        t = self.peek()
        if t is None:
            raise self.err("missing operand")
        if t.kind == "op" and t.text in ("-", "+"):
            self.pos += 1
            return ("un", t.text, self.unary_operand())
        if t.kind == "id" and t.up == "NOT":
            self.pos += 1
            return ("un", "NOT", self.unary_operand())
        return self.expr_primary()

    def unary_operand(self):
        # unary operators bind tighter than all binary ones: operand is a primary (or another unary)
        return self.unary()

    def expr_primary(self):
        t = self.next()
        if t.kind == "num":
            is_int = re.fullmatch(r"\d+", t.text) is not None and int(t.text) <= 32767
            return ("num", float(t.text), is_int)
        if t.kind == "hex":
            h = int(t.text[1:], 16)
            if h > 0xFFFF:
                raise self.err(f"hex constant {t.text} does not fit BASIC09's 16-bit INTEGER")
            # $hhhh is a 16-bit two's complement INTEGER constant: $8000 = -32768, $FFFF = -1
            return ("num", float(h - 65536 if h >= 0x8000 else h), True)
        if t.kind == "str":
            return ("str", t.text[1:-1].replace('""', '"'))
        if t.kind == "op" and t.text == "(":
            e = self.expr()
            self.need_op(")")
            return ("paren", e)
        if t.kind == "id":
            if t.up in BUILTINS:
                args = []
                if self.is_op("("):
                    self.pos += 1
                    if self.is_op(")"):
                        raise self.err(f"empty argument list for {t.text}")
                    args = self.arglist()
                    self.need_op(")")
                if len(args) not in BUILTINS[t.up]:
                    raise self.err(f"{t.text} takes {' or '.join(map(str, BUILTINS[t.up]))} argument(s), got {len(args)}")
                return ("call", t.up, args)
            if t.up in RESERVED:
                raise self.err(f"reserved word {t.text} used as an operand")
            self.pos -= 1
            return self.lvalue()
        raise self.err(f"unexpected {t.text!r} where an operand was expected")

    def lvalue(self):
        t = self.next()
        if t.kind != "id":
            raise self.err(f"expected a variable, got {t.text!r}")
        if t.up in RESERVED:
            raise self.err(f"reserved word {t.text} used as a variable")
        subs = []
        if self.is_op("("):
            self.pos += 1
            subs = self.arglist()
            self.need_op(")")
        fields = []
        while self.is_op("."):
            self.pos += 1
            f = self.next()
            if f.kind != "id":
                raise self.err("expected a field name")
            fsubs = []
            if self.is_op("("):
                self.pos += 1
                fsubs = self.arglist()
                self.need_op(")")
            fields.append((f.text, fsubs))
        return ("var", t.text, subs, fields)

    def decl_groups(self):
        """name[(dims)] {, name[(dims)]} [: type] {; ...}  -> [( [(name, dims)], typ )]"""
        groups = []
        while True:
            names = []
            while True:
                t = self.next()
                if t.kind != "id":
                    raise self.err(f"expected a name in declaration, got {t.text!r}")
                if t.up in RESERVED:
                    raise self.err(f"reserved word {t.text} declared as a variable")
                dims = []
                if self.is_op("("):
                    self.pos += 1
                    while True:
                        d = self.next()
                        if d.kind not in ("num", "hex"):
                            raise self.err("array bound must be a constant")
                        if d.kind == "hex" and int(d.text[1:], 16) >= 0x8000:
                            # $hhhh is a 16-bit signed INTEGER constant: $8000 and above are negative sizes
                            raise self.err(f"array size {d.text} is negative as a 16-bit INTEGER constant")
                        dims.append(int(d.text[1:], 16) if d.kind == "hex" else int(float(d.text)))
                        if self.is_op(","):
                            self.pos += 1
                            continue
                        break
                    self.need_op(")")
                    if len(dims) > 3:
                        raise self.err("more than 3 dimensions")
                names.append((t.text, dims))
                if self.is_op(","):
                    self.pos += 1
                    continue
                break
            typ = None
            if self.is_op(":"):
                self.pos += 1
                t = self.next()
                if t.kind != "id":
                    raise self.err("expected a type name")
                typ = [t.text.upper() if t.up in TYPE_WORDS else t.text, None]
                if t.up == "STRING" and self.is_op("["):
                    self.pos += 1
                    n = self.next()
                    if n.kind != "num":
                        raise self.err("STRING[n] needs a constant")
                    typ[1] = int(float(n.text))
                    self.need_op("]")
                elif t.up in RESERVED and t.up not in TYPE_WORDS:
                    raise self.err(f"reserved word {t.text} used as a type")
                typ = tuple(typ)
            groups.append((names, typ))
            if self.is_op(";"):
                self.pos += 1
                continue
            break
        return groups

    def io_args(self, w):
        """PUT #p, x / CLOSE #p / OPEN #p, "name":mode / SHELL expr ... parsed permissively:
        a comma separated list of [#]expr[:access] items."""
        args = []
        while not self.at_end():
            hashed = False
            if self.is_op("#"):
                self.pos += 1
                hashed = True
            e = self.expr()
            mode = None
            if self.is_op(":"):
                self.pos += 1
                m = self.next()
                if m.kind != "id":
                    raise self.err("expected an access mode")
                mode = m.up
                while self.is_op("+"):
                    self.pos += 1
                    m = self.next()
                    mode += "+" + m.up
            args.append((hashed, e, mode))
            if self.is_op(","):
                self.pos += 1
                if self.at_end():
                    raise self.err("trailing comma")
                continue
            break
        self.end()
        if not args:
            raise self.err(f"{w} needs arguments")
        return args


def parse(text):
    return Parser(text).parse()


def walk(stmts):
    """Yield every statement node, depth first, in textual order."""
    for s in stmts:
        yield s
        for key in ("then", "els", "body"):
            sub = s.a.get(key)
            if sub:
                yield from walk(sub)


def expr_walk(e):
    yield e
    k = e[0]
    if k == "var":
        for s in e[2]:
            yield from expr_walk(s)
        for _, fs in e[3]:
            for s in fs:
                yield from expr_walk(s)
    elif k == "call":
        for a in e[2]:
            yield from expr_walk(a)
    elif k == "un":
        yield from expr_walk(e[2])
    elif k == "bin":
        yield from expr_walk(e[2])
        yield from expr_walk(e[3])
    elif k == "paren":
        yield from expr_walk(e[1])


def stmt_exprs(s):
    """All top-level expressions of one statement node (not of nested blocks)."""
    a = s.a
    k = s.kind
    out = []
    if k in ("if", "ifgoto", "exitif", "while", "repeat"):
        out.append(a["cond"])
    elif k == "for":
        out += [a["var"], a["start"], a["end"]] + ([a["step"]] if a["step"] else [])
    elif k == "assign":
        out += [a["target"], a["expr"]]
    elif k == "on":
        out.append(a["sel"])
    elif k == "poke":
        out += [a["addr"], a["value"]]
    elif k == "run":
        out += a["args"]
    elif k == "print":
        if a["path"]:
            out.append(a["path"])
        out += [e for t, e in a["items"] if t == "e"]
    elif k in ("input", "read"):
        if a.get("prompt"):
            out.append(a["prompt"])
        out += a["targets"]
    elif k == "data":
        out += a["items"]
    elif k == "error":
        out.append(a["code"])
    elif k == "io":
        out += [e for _, e, _ in a["args"]]
    elif k in ("end", "stop", "pause") and a.get("msg"):
        out.append(a["msg"])
    return out
