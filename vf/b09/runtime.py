"""Glue: load the emitted program + the interpretable part of the shipped library, and
the device model (ecb_str primitive, scripted device functions)."""
import os
import re

from vf import core
from vf.b09 import interp as I
from vf.b09 import syntax as S

PURE = ["ecb_int", "ecb_val", "ecb_hex", "_ecb_hex_digit", "ecb_instr", "ecb_string", "ecb_read_filter", "_ecb_min", "_ecb_max"]
_lib = {}


def library_text(size=32):
    key = ("text", size)
    if key not in _lib:
        t = open(os.path.join(core.REPO, "coco", "resources", "ecb.b09"), encoding="latin-1").read()
        _lib[key] = re.sub(r"(?i):\s*STRING<<>>", ": STRING" if size == 32 else f": STRING[{size}]", t)
    return _lib[key]


def library_procs(size=32):
    key = ("procs", size)
    if key not in _lib:
        _lib[key] = I.load_procs(library_text(size))
    return _lib[key]


def dev_ecb_str(m, frame, argrefs, vals):
    v = vals[0]
    out = argrefs[1]
    if not isinstance(out, I.Ref):
        raise I.ModelAbort("param", "ecb_str: result parameter is not a variable")
    if out.cell.typ[0] != "STRING":
        raise I.ModelAbort("param", "ecb_str: result parameter is numeric")
    if v is None:
        if m.strict_init:
            raise I.ModelAbort("uninit", "argument of ecb_str")
        v = I.UNSPEC
    if isinstance(v, (str, bool)):
        raise I.ModelAbort("param", "ecb_str: non-numeric argument")
    img = I.decb_num_image(v)
    out.set(img if img is I.UNSPEC else img + " ")


class Script:
    """Scripted device functions for C05: every call is logged with its input arguments and answers from a
    deterministic script."""

    def __init__(self):
        self.log = []
        self.n = 0

    def answer(self, name, ins):
        self.n += 1
        self.log.append((name, tuple(ins)))
        if name == "inkey":
            return "abcdefghij"[(self.n - 1) % 10]
        return float(10 * self.n + 1)


def dev_start(m, frame, argrefs, vals):
    """_ecb_start initialises the display record; marker values make 'current colour' defaults observable."""
    rec = argrefs[0]
    if isinstance(rec, dict):
        marks = {"hfore": 7, "hbck": 3, "fore": 5, "bck": 2, "hpth": 9, "hscl": 1}
        for k, cell in rec.items():
            for j in range(len(cell.data)):
                cell.data[j] = marks.get(k, 0)


def dev_ecb_hex(m, frame, argrefs, vals):
    """HEX$ primitive (used where only the call order matters): Color BASIC's image."""
    v = vals[0]
    out = argrefs[1]
    if not isinstance(out, I.Ref) or out.cell.typ[0] != "STRING":
        raise I.ModelAbort("param", "ecb_hex: result parameter is not a string variable")
    if v is None or v is I.UNSPEC or isinstance(v, (str, bool)):
        out.set(I.UNSPEC)
        return
    import math
    n = math.floor(v)
    out.set("%X" % n if 0 <= n <= 65535 else I.UNSPEC)


PRIMITIVE_HEX = False


def make_devices(script=None):
    d = {"ecb_str": dev_ecb_str, "_ecb_start": dev_start}
    if PRIMITIVE_HEX:
        d["ecb_hex"] = dev_ecb_hex
    if script is not None:
        def mk(name, n_in):
            def h(m, frame, argrefs, vals):
                ins = vals[:n_in]
                out = argrefs[-1]
                if len(vals) < n_in + 1:
                    raise I.ModelAbort("param", f"{name}: too few arguments")
                for v in ins:
                    if v is None:
                        raise I.ModelAbort("uninit", f"input argument of {name}")
                if not isinstance(out, I.Ref):
                    raise I.ModelAbort("param", f"{name}: result parameter is not a variable")
                out.set(script.answer(name, [I._plain(v) for v in ins]))
            return h
        d["ecb_button"] = mk("ecb_button", 1)
        d["ecb_joystk"] = mk("ecb_joystk", 1)
        d["ecb_point"] = mk("ecb_point", 2)
        d["inkey"] = mk("inkey", 0)
    return d


def run_b09(text, inputs=None, script=None, strict_init=False, horizon=20000, size=32, with_library=True, world=None):
    """-> dict(status, how, trace, calls, env) ; status in ok | b09-error | abort:<kind>"""
    procs = dict(library_procs(size)) if with_library else {}
    keep = {}
    for k, v in procs.items():
        if k in PURE:
            keep[k] = v
    user = I.load_procs(text)
    main = None
    for k, p in user.items():
        keep[k] = p
        main = k
    m = I.Machine(keep, devices=make_devices(script), strict_init=strict_init, horizon=horizon, inputs=inputs, world=world)
    res = {"status": "ok", "how": None, "detail": ""}
    try:
        res["how"] = m.run_main(main if main is not None else "")
    except I.B09Error as e:
        res["status"] = "b09-error"
        res["detail"] = str(e)
        res["code"] = e.code
    except I.ModelAbort as e:
        res["status"] = "abort:" + e.kind
        res["detail"] = e.detail
    except RecursionError:
        res["status"] = "abort:horizon"
    res["trace"] = m.trace
    res["calls"] = m.calls
    res["steps"] = m.steps
    env = {}
    fe = m.final_env or {}
    for k, c in fe.items():
        if isinstance(c, I.AliasCell):
            continue
        if c.typ[0] in ("REAL", "INTEGER", "BYTE", "BOOLEAN", "STRING"):
            env[k] = c.data[0] if not c.dims else list(c.data)
    res["env"] = env
    return res
