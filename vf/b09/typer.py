"""Three-kind typer for the BASIC09 model: 'str', 'num', 'bool', 'rec:<type>', 'arr:<kind>'.
Only the distinctions the properties name (string / numeric / record) are made."""
from vf.b09 import syntax as S


class Scope:
    def __init__(self, proc=None, types=None):
        self.vars = {}  # lower name -> (kind, dims)
        self.types = dict(types or {})  # lower type name -> [(field, kind, dims)]
        self.params = []  # [(name, kind, dims)]
        if proc is not None:
            self.load(proc)

    @staticmethod
    def kind_of_type(typ, types):
        if typ is None:
            return None
        t = typ[0]
        if t == "STRING":
            return "str"
        if t in ("BYTE", "INTEGER", "REAL"):
            return "num"
        if t == "BOOLEAN":
            return "bool"
        return "rec:" + t.lower()

    def default_kind(self, name):
        return "str" if name.endswith("$") else "num"

    def load(self, proc):
        for s in S.walk(proc.body):
            if s.kind == "type":
                fields = []
                for names, typ in s.a["groups"]:
                    k = self.kind_of_type(typ, self.types) or "num"
                    for n, dims in names:
                        fields.append((n.lower(), k, list(dims), typ))
                self.types[s.a["name"].lower()] = fields
            elif s.kind in ("dim", "param"):
                for names, typ in s.a["groups"]:
                    for n, dims in names:
                        k = self.kind_of_type(typ, self.types) or self.default_kind(n)
                        self.vars[n.lower()] = (k, list(dims))
                        if s.kind == "param":
                            self.params.append((n, k, list(dims)))

    def var_kind(self, e):
        _, name, subs, fields = e
        k, dims = self.vars.get(name.lower(), (self.default_kind(name), []))
        if dims and not subs and not fields:
            return "arr:" + k
        for fname, fsubs in fields:
            if not k.startswith("rec:"):
                return "?"
            tdef = self.types.get(k[4:])
            if tdef is None:
                return "?"
            hit = [f for f in tdef if f[0] == fname.lower()]
            if not hit:
                return "?"
            k, dims = hit[0][1], hit[0][2]
            if dims and not fsubs:
                return "arr:" + k
        return k

    def kind(self, e):
        t = e[0]
        if t == "num":
            return "num"
        if t == "str":
            return "str"
        if t == "var":
            return self.var_kind(e)
        if t == "paren":
            return self.kind(e[1])
        if t == "call":
            if e[1] in S.STRING_FUNCS:
                return "str"
            if e[1] in S.BOOL_FUNCS:
                return "bool"
            return "num"
        if t == "un":
            return "bool" if e[1] == "NOT" else "num"
        if t == "bin":
            op = e[1]
            if op in ("AND", "OR", "XOR"):
                return "bool"
            if op in ("=", "<>", "><", "<", ">", "<=", "=<", ">=", "=>"):
                return "bool"
            lk = self.kind(e[2])
            if op == "+" and lk == "str":
                return "str"
            return "num"
        return "?"


def compatible(arg_kind, param_kind):
    if arg_kind == "?" or param_kind == "?":
        return True
    if arg_kind.startswith("arr:") or param_kind.startswith("arr:"):
        return arg_kind.split(":")[-1] == param_kind.split(":")[-1]
    return arg_kind == param_kind
