"""BASIC09 reference model, part 2: interpreter (three-valued: UNSPEC = behaviour I am not
certain of in real BASIC09 -> no verdict).

Programs are compiled to a flat instruction list per procedure (labels -> indexes) so
GOTO/GOSUB/ON work across block boundaries exactly as in BASIC09's I-code.
"""
import math

from vf.b09 import syntax as S


class Unspec:
    def __repr__(self):
        return "UNSPEC"


UNSPEC = Unspec()


class B09Error(Exception):
    """BASIC09 run-time error (error number may be UNSPEC)."""

    def __init__(self, code, msg=""):
        super().__init__(f"error {code} {msg}")
        self.code = code
        self.msg = msg


class ModelAbort(Exception):
    """The model cannot continue: kind in {'unspec', 'horizon', 'uninit', 'type', 'param', 'bounds', 'internal'}"""

    def __init__(self, kind, detail=""):
        super().__init__(f"{kind}: {detail}")
        self.kind = kind
        self.detail = detail


class Stop(Exception):
    def __init__(self, how):
        self.how = how  # 'end' | 'stop' | 'fell-off'


# ------------------------------------------------------------------------------ storage
class Cell:
    """A declared variable: scalar, array or record."""
    __slots__ = ("typ", "dims", "data", "defined", "name", "fields", "base")

    def __init__(self, name, typ, dims=(), types=None, base=0):
        self.name = name
        self.typ = typ  # ('REAL',None) ('INTEGER',None) ('BYTE',None) ('BOOLEAN',None) ('STRING',n) (typename,None)
        self.dims = tuple(dims)
        self.base = base
        self.fields = None
        n = 1
        for d in self.dims:
            n *= d
        if typ[0] in ("REAL", "INTEGER", "BYTE", "BOOLEAN", "STRING"):
            self.data = [None] * n
        else:
            tdef = (types or {}).get(typ[0].lower())
            if tdef is None:
                raise ModelAbort("type", f"unknown type {typ[0]}")
            self.data = [make_record(tdef, types, base) for _ in range(n)]

    def index(self, subs):
        if len(subs) != len(self.dims):
            raise B09Error(UNSPEC, f"wrong number of subscripts for {self.name}: {len(subs)} given, {len(self.dims)} declared")
        idx = 0
        for s, d in zip(subs, self.dims):
            if s is UNSPEC:
                raise ModelAbort("unspec", "subscript")
            if isinstance(s, float):
                if s != int(s):
                    raise ModelAbort("unspec", "non-integer subscript (rounding direction)")
                s = int(s)
            k = s - self.base
            if k < 0 or k >= d:
                raise B09Error(55, f"subscript {s} out of range for {self.name}{self.dims} base {self.base}")
            idx = idx * d + k
        return idx


def make_record(tdef, types, base):
    rec = {}
    for fname, typ, dims in tdef:
        rec[fname] = Cell(fname, typ, dims, types, base)
    return rec


class Ref:
    """Reference to one storage slot (scalar variable, array element or record field)."""
    __slots__ = ("cell", "idx")

    def __init__(self, cell, idx=0):
        self.cell = cell
        self.idx = idx

    def get(self):
        return self.cell.data[self.idx]

    def set(self, v):
        self.cell.data[self.idx] = coerce(v, self.cell.typ, self.cell.name)


def coerce(v, typ, name=""):
    t = typ[0]
    if v is UNSPEC:
        return UNSPEC
    if t == "REAL":
        if isinstance(v, bool) or isinstance(v, str):
            raise B09Error(UNSPEC, f"type mismatch assigning {type(v).__name__} to REAL {name}")
        return float(v)
    if t in ("INTEGER", "BYTE"):
        if isinstance(v, bool) or isinstance(v, str):
            raise B09Error(UNSPEC, f"type mismatch assigning {type(v).__name__} to {t} {name}")
        if isinstance(v, float):
            if v != int(v):
                return UNSPEC  # rounding direction of REAL -> INTEGER is not modelled
            v = int(v)
        lo, hi = (-32768, 32767) if t == "INTEGER" else (0, 255)
        if v < lo or v > hi:
            if t == "BYTE":
                return UNSPEC  # BYTE assignment of out-of-range values wraps silently in BASIC09
            raise B09Error(52, f"value {v} out of range for {t} {name}")
        return v
    if t == "STRING":
        if not isinstance(v, str):
            raise B09Error(UNSPEC, f"type mismatch assigning {type(v).__name__} to STRING {name}")
        n = typ[1] or 32
        return v[:n]
    if t == "BOOLEAN":
        if not isinstance(v, bool):
            raise B09Error(UNSPEC, f"type mismatch assigning {type(v).__name__} to BOOLEAN {name}")
        return v
    return v  # record copy (not used by the emitted programs)


# ---------------------------------------------------------------------------- compiling
class Proc:
    def __init__(self, node, text_types=None):
        self.name = node.a["name"]
        self.code = []
        self.labels = {}
        self.data = []  # [(label region idx, expr)]
        self.data_labels = {}
        self.decls = []  # ('dim'|'param', name, typ, dims)
        self.types = {}
        self.base = 1
        self.params = []
        self._compile(node.a["body"])
        self.code.append(("falloff",))

    def emit(self, *ins):
        self.code.append(ins)
        return len(self.code) - 1

    def _label(self, st):
        if st.label is not None:
            self.labels[st.label] = len(self.code)
            self.data_labels.setdefault(st.label, len(self.data))

    def _compile(self, stmts):
        for st in stmts:
            self._label(st)
            k = st.kind
            a = st.a
            if k in ("rem", "empty", "tron", "troff", "deg", "rad"):
                self.emit("nop")
            elif k == "base":
                self.base = a["value"]
                self.emit("nop")
            elif k == "type":
                fields = []
                for names, typ in a["groups"]:
                    for n, dims in names:
                        fields.append((n.lower(), typ or ("REAL", None), tuple(dims)))
                self.types[a["name"].lower()] = fields
                self.emit("nop")
            elif k in ("dim", "param"):
                for names, typ in a["groups"]:
                    for n, dims in names:
                        t = typ or (("STRING", None) if n.endswith("$") else ("REAL", None))
                        self.decls.append((k, n, t, tuple(dims)))
                        if k == "param":
                            self.params.append((n, t, tuple(dims)))
                self.emit("nop")
            elif k == "assign":
                self.emit("assign", a["target"], a["expr"])
            elif k == "if":
                jf = self.emit("jf", a["cond"], None)
                self._compile(a["then"])
                if a["els"] is not None:
                    j = self.emit("jmp", None)
                    self.code[jf] = ("jf", a["cond"], len(self.code))
                    self._compile(a["els"])
                    self.code[j] = ("jmp", len(self.code))
                else:
                    self.code[jf] = ("jf", a["cond"], len(self.code))
            elif k == "ifgoto":
                self.emit("jt_label", a["cond"], a["target"])
            elif k == "loop":
                start = len(self.code)
                exits = []
                self._loop_stack = getattr(self, "_loop_stack", [])
                self._loop_stack.append(exits)
                self._compile(a["body"])
                self._loop_stack.pop()
                self.emit("jmp", start)
                for e in exits:
                    self.code[e] = ("jmp", len(self.code))
            elif k == "exitif":
                jf = self.emit("jf", a["cond"], None)
                self._compile(a["body"])
                stack = getattr(self, "_loop_stack", [])
                j = self.emit("jmp", None)
                if stack:
                    stack[-1].append(j)
                else:
                    self.code[j] = ("abort", "internal", "EXITIF outside a loop")
                self.code[jf] = ("jf", a["cond"], len(self.code))
            elif k == "while":
                start = len(self.code)
                jf = self.emit("jf", a["cond"], None)
                self._loop_stack = getattr(self, "_loop_stack", [])
                exits = []
                self._loop_stack.append(exits)
                self._compile(a["body"])
                self._loop_stack.pop()
                self.emit("jmp", start)
                self.code[jf] = ("jf", a["cond"], len(self.code))
                for e in exits:
                    self.code[e] = ("jmp", len(self.code))
            elif k == "repeat":
                start = len(self.code)
                self._compile(a["body"])
                self.emit("jf", a["cond"], start)
            elif k == "for":
                slot = len(self.code)
                self.emit("for_init", a["var"], a["start"], a["end"], a["step"], slot)
                test = self.emit("for_test", a["var"], slot, None)
                self._compile(a["body"])
                if a.get("next_label") is not None:
                    self.labels[a["next_label"]] = len(self.code)
                    self.data_labels.setdefault(a["next_label"], len(self.data))
                self.emit("for_next", a["var"], slot, test)
                self.code[test] = ("for_test", a["var"], slot, len(self.code))
            elif k in ("goto", "gosub"):
                self.emit(k, a["target"])
            elif k == "on":
                self.emit("on", a["sel"], a["targets"], a["gosub"])
            elif k == "onerror":
                self.emit("onerror", a["target"])
            elif k == "return":
                self.emit("return")
            elif k in ("end", "stop", "bye"):
                self.emit(k)
            elif k == "error":
                self.emit("error", a["code"])
            elif k == "restore":
                self.emit("restore", a["target"])
            elif k == "poke":
                self.emit("poke", a["addr"], a["value"])
            elif k == "run":
                self.emit("run", a["name"], a["args"])
            elif k == "print":
                self.emit("print", a["path"], a["items"], a["using"])
            elif k == "input":
                self.emit("input", a["path"], a["prompt"], a["targets"])
            elif k == "read":
                self.emit("read", a["path"], a["targets"])
            elif k == "data":
                for e in a["items"]:
                    self.data.append(e)
                self.emit("nop")
            elif k == "io":
                self.emit("io", a["op"], a["args"])
            elif k == "pause":
                self.emit("nop")
            else:
                self.emit("abort", "internal", f"statement kind {k}")


def load_procs(text):
    procs = {}
    for node in S.parse(text):
        p = Proc(node)
        procs[(p.name or "").lower()] = p
    return procs


# ---------------------------------------------------------------------------- execution
def decb_num_image(x):
    """Image produced by the ecb_str primitive = Color BASIC's STR$: sign position, digits; UNSPEC unless simple."""
    if x is UNSPEC:
        return UNSPEC
    if isinstance(x, bool):
        return UNSPEC
    x = float(x)
    if x != x or x in (float("inf"), float("-inf")):
        return UNSPEC
    if x == int(x) and abs(x) < 1e9:
        s = str(int(abs(x)))
    else:
        r = round(abs(x), 6)
        if abs(r - abs(x)) > 1e-12 or abs(x) >= 1e6 or (abs(x) < 0.01 and x != 0):
            return UNSPEC
        s = ("%.6f" % r).rstrip("0")
        if s.startswith("0."):
            s = s[1:]
        if s.endswith("."):
            s = s[:-1]
    return ("-" if x < 0 else " ") + s


def b09_num_image(x):
    """BASIC09's own number -> text: deliberately distinct from the DECB image."""
    if x is UNSPEC:
        return UNSPEC
    if isinstance(x, int) and not isinstance(x, bool):
        return "%d" % x
    x = float(x)
    if x == int(x) and abs(x) < 1e9:
        return "%d." % int(x)
    return UNSPEC


class Machine:
    def __init__(self, procs, devices=None, strict_init=False, horizon=20000, inputs=None, user_proc_names=None, world=None):
        self.world = world or {}
        self.procs = procs
        self.devices = devices or {}
        self.strict_init = strict_init
        self.horizon = horizon
        self.steps = 0
        self.trace = []  # observable events
        self.inputs = list(inputs or [])
        self.calls = []  # (name, [evaluated args])
        self.depth = 0
        self.user_proc_names = user_proc_names or set()
        self.final_env = None

    # ---- entry
    def run_main(self, name=""):
        p = self.procs.get(name.lower())
        if p is None:
            raise ModelAbort("internal", f"no procedure {name!r}")
        try:
            env = self.call(p, [])
            how = "fell-off"
        except Stop as s:
            how = s.how
        return how

    def call(self, proc, argrefs):
        self.depth += 1
        if self.depth > 40:
            raise ModelAbort("horizon", "recursion depth")
        fr = Frame(self, proc, argrefs)
        try:
            fr.run()
        finally:
            self.depth -= 1
            if self.depth == 0:
                self.final_env = fr.env
        return fr.env


class Frame:
    def __init__(self, m, proc, argrefs):
        self.m = m
        self.proc = proc
        self.env = {}
        self.types = dict(proc.types)
        self.data_ptr = 0
        self.gosub = []
        self.for_state = {}
        self.err_handler = None
        self.last_err = 0
        if len(argrefs) != len(proc.params):
            raise ModelAbort("param", f"{proc.name}: {len(argrefs)} argument(s) for {len(proc.params)} parameter(s)")
        pi = 0
        for kind, n, typ, dims in proc.decls:
            key = n.lower()
            if key in self.env:
                if kind == "param":
                    pi += 1
                continue  # multiply defined: structural checks (C10) report it
            if kind == "param":
                arg = argrefs[pi]
                pi += 1
                self.env[key] = self.bind_param(n, typ, dims, arg)
            else:
                self.env[key] = Cell(n, typ, dims, self.types, proc.base)

    def bind_param(self, n, typ, dims, arg):
        want_rec = typ[0] not in ("REAL", "INTEGER", "BYTE", "BOOLEAN", "STRING")
        if isinstance(arg, Cell) and (dims or want_rec):
            return arg  # whole array / record by reference
        if isinstance(arg, dict):
            c = Cell.__new__(Cell)
            c.name, c.typ, c.dims, c.base, c.fields = n, typ, (), 0, None
            c.data = [arg]
            c.defined = None
            return c
        if isinstance(arg, Ref):
            # by reference: alias storage, but check kind compatibility string/number
            src_t = arg.cell.typ[0]
            is_str = typ[0] == "STRING"
            if (src_t == "STRING") != is_str:
                raise ModelAbort("param", f"parameter {n} of {self.proc.name}: {'string' if is_str else 'numeric'} expected, {src_t} passed")
            if src_t != typ[0]:
                # REAL variable passed to an INTEGER parameter (or vice versa): representation differs in BASIC09
                v = arg.get()
                c = Cell(n, typ, (), self.types, self.proc.base)
                c.data[0] = UNSPEC if v is not None else None
                if v is not None and not isinstance(v, Unspec):
                    try:
                        c.data[0] = coerce(v, typ, n)
                    except B09Error:
                        c.data[0] = UNSPEC
                c.fields = ("alias", arg)
                return c
            return AliasCell(n, typ, arg)
        # by value
        c = Cell(n, typ, (), self.types, self.proc.base)
        if isinstance(arg, tuple) and arg and arg[0] == "value":
            v = arg[1]
            if v is not UNSPEC and v is not None:
                if (typ[0] == "STRING") != isinstance(v, str):
                    raise ModelAbort("param", f"parameter {n} of {self.proc.name}: kind mismatch ({type(v).__name__})")
                if typ[0] in ("INTEGER", "BYTE") and isinstance(v, float):
                    v = UNSPEC if v != int(v) else int(v)  # REAL expression passed to INTEGER parameter
                if typ[0] == "REAL" and isinstance(v, int):
                    v = float(v)
            c.data[0] = v if v is UNSPEC else coerce(v, typ, n)
        return c

    # ---- variable access
    def cell_for(self, name):
        key = name.lower()
        c = self.env.get(key)
        if c is None:
            typ = ("STRING", None) if name.endswith("$") else ("REAL", None)
            c = Cell(name, typ, (), self.types, self.proc.base)
            self.env[key] = c
        return c

    def ref(self, e):
        """expression ('var', name, subs, fields) -> Ref | Cell (whole array/record)"""
        _, name, subs, fields = e
        c = self.cell_for(name)
        if isinstance(c, AliasCell) and not subs and not fields:
            return c.ref if c.view is None else Ref(c, 0)
        if subs:
            idx = c.index([self.ev(s) for s in subs])
        else:
            if c.dims:
                if fields:
                    raise ModelAbort("type", f"array {name} used without subscripts")
                return c
            idx = 0
        cur = c
        for fname, fsubs in fields:
            rec = cur.data[idx]
            if not isinstance(rec, dict):
                raise B09Error(UNSPEC, f"{name} is not a record")
            f = rec.get(fname.lower())
            if f is None:
                raise B09Error(UNSPEC, f"no field {fname}")
            cur = f
            if fsubs:
                idx = cur.index([self.ev(s) for s in fsubs])
            else:
                if cur.dims:
                    return cur
                idx = 0
        if cur.typ[0] not in ("REAL", "INTEGER", "BYTE", "BOOLEAN", "STRING") and not cur.dims:
            return cur.data[idx] if isinstance(cur.data[idx], dict) else cur
        return Ref(cur, idx)

    def read(self, e):
        r = self.ref(e)
        if isinstance(r, (Cell, dict)):
            raise ModelAbort("type", f"{e[1]} used as a value")
        v = r.get()
        if v is None:
            if self.m.strict_init and not e[1].lower().startswith("tmp_"):
                raise ModelAbort("uninit", e[1] + ("(...)" if e[2] else ""))
            if self.m.strict_init:
                raise ModelAbort("uninit-tmp", e[1])
            if e[1].lower().startswith("tmp_"):
                raise ModelAbort("uninit-tmp", e[1])
            return UNSPEC  # BASIC09 does not clear variables: the value is whatever the memory held
        return v

    # ---- expressions
    def ev(self, e):
        k = e[0]
        if k == "num":
            return int(e[1]) if e[2] else e[1]
        if k == "str":
            return e[1]
        if k == "var":
            return self.read(e)
        if k == "paren":
            return self.ev(e[1])
        if k == "un":
            v = self.ev(e[2])
            if v is UNSPEC:
                return UNSPEC
            if e[1] == "NOT":
                if not isinstance(v, bool):
                    raise B09Error(UNSPEC, "NOT needs a BOOLEAN operand")
                return not v
            if isinstance(v, (str, bool)):
                raise B09Error(UNSPEC, "unary minus on non-number")
            return -v if e[1] == "-" else v
        if k == "bin":
            return self.binop(e[1], self.ev(e[2]), self.ev(e[3]))
        if k == "call":
            return self.func(e[1], e[2])
        raise ModelAbort("internal", f"expr {k}")

    def binop(self, op, a, b):
        if op in ("AND", "OR", "XOR"):
            if a is UNSPEC or b is UNSPEC:
                return UNSPEC
            if not isinstance(a, bool) or not isinstance(b, bool):
                raise B09Error(UNSPEC, f"{op} needs BOOLEAN operands")
            return (a and b) if op == "AND" else ((a or b) if op == "OR" else (a != b))
        if a is UNSPEC or b is UNSPEC:
            return UNSPEC
        if op in ("=", "<>", "><", "<", ">", "<=", "=<", ">=", "=>"):
            if isinstance(a, str) != isinstance(b, str):
                raise B09Error(UNSPEC, "comparison of string with number")
            if isinstance(a, bool) or isinstance(b, bool):
                if not (isinstance(a, bool) and isinstance(b, bool)) or op not in ("=", "<>", "><"):
                    raise B09Error(UNSPEC, "comparison involving BOOLEAN")
            if isinstance(a, str) and op not in ("=", "<>", "><") and (not a.isascii() or not b.isascii()):
                return UNSPEC
            return {"=": a == b, "<>": a != b, "><": a != b, "<": a < b, ">": a > b, "<=": a <= b, "=<": a <= b, ">=": a >= b, "=>": a >= b}[op]
        if isinstance(a, bool) or isinstance(b, bool):
            raise B09Error(UNSPEC, f"BOOLEAN operand of {op}")
        if isinstance(a, str) or isinstance(b, str):
            if op == "+" and isinstance(a, str) and isinstance(b, str):
                return a + b
            raise B09Error(UNSPEC, f"string operand of {op}")
        both_int = isinstance(a, int) and isinstance(b, int)
        try:
            if op == "+":
                r = a + b
            elif op == "-":
                r = a - b
            elif op == "*":
                r = a * b
            elif op == "/":
                if b == 0:
                    raise B09Error(45, "division by zero")
                if both_int:
                    # INTEGER / INTEGER is BASIC09's integer division; the quotient of non-negative operands is unambiguous,
                    # the rounding direction for negative operands is not modelled
                    if a % b != 0 and (a < 0 or b < 0):
                        return UNSPEC
                    r = a // b
                else:
                    r = a / b
            else:  # ^ **
                if a == 0 and b < 0:
                    raise B09Error(45, "0 to a negative power")
                if a < 0 and float(b) != int(b):
                    raise B09Error(UNSPEC, "negative base, fractional exponent")
                r = float(a) ** float(b)
                both_int = False
        except OverflowError:
            raise B09Error(50, "overflow")
        if both_int and not (-32768 <= r <= 32767):
            return UNSPEC  # integer overflow behaviour
        if isinstance(r, float) and (r != r or abs(r) > 1.7e38):
            raise B09Error(50, "overflow")
        return r

    def func(self, name, args):
        if name == "ERR":
            return self.last_err
        if name == "TRUE":
            return True
        if name == "FALSE":
            return False
        if name == "PI":
            return math.pi
        if name in ("ADDR", "SIZE", "POS", "DATE$", "EOF", "RND", "PEEK"):
            for a in args:
                if name not in ("ADDR", "SIZE"):
                    self.ev(a)
            if name in ("RND", "PEEK") and (name.lower() in self.m.devices):
                return self.m.devices[name.lower()](self.m, [self.ev(a) for a in args])
            return UNSPEC
        v = [self.ev(a) for a in args]
        if any(x is UNSPEC for x in v):
            return UNSPEC

        def num(x):
            if isinstance(x, (str, bool)):
                raise B09Error(UNSPEC, f"{name}: numeric argument expected")
            return x

        def s(x):
            if not isinstance(x, str):
                raise B09Error(UNSPEC, f"{name}: string argument expected")
            return x

        def intarg(x):
            x = num(x)
            if isinstance(x, float):
                if x != int(x):
                    return UNSPEC
                x = int(x)
            return x
        try:
            if name == "ABS":
                return abs(num(v[0]))
            if name == "SGN":
                x = num(v[0])
                return (x > 0) - (x < 0) if isinstance(x, int) else float((x > 0) - (x < 0))
            if name == "INT":
                x = num(v[0])
                return float(math.trunc(x)) if isinstance(x, float) else x
            if name == "FIX":
                x = num(v[0])
                if isinstance(x, int):
                    return x
                if abs(x - round(x)) == 0.5 or abs(x) > 32767.5:
                    return UNSPEC if abs(x) <= 32767.5 else _raise(B09Error(52, "FIX range"))
                return int(round(x))
            if name == "FLOAT":
                return float(num(v[0]))
            if name in ("SQR", "SQRT"):
                if num(v[0]) < 0:
                    raise B09Error(UNSPEC, "square root of a negative number")
                return math.sqrt(v[0])
            if name == "SQ":
                return num(v[0]) * v[0]
            if name in ("SIN", "COS", "TAN", "ATN", "ASN", "ACS", "EXP"):
                f = {"SIN": math.sin, "COS": math.cos, "TAN": math.tan, "ATN": math.atan, "ASN": math.asin, "ACS": math.acos, "EXP": math.exp}[name]
                return f(num(v[0]))
            if name == "LOG":
                if num(v[0]) <= 0:
                    raise B09Error(UNSPEC, "LOG of non-positive")
                return math.log(v[0])
            if name == "LOG10":
                if num(v[0]) <= 0:
                    raise B09Error(UNSPEC, "LOG10 of non-positive")
                return math.log10(v[0])
            if name == "MOD":
                a, b = intarg(v[0]), intarg(v[1])
                if a is UNSPEC or b is UNSPEC or b == 0 or a < 0 or b < 0:
                    return UNSPEC
                return a % b
            if name in ("LAND", "LOR", "LXOR"):
                a, b = intarg(v[0]), intarg(v[1])
                if a is UNSPEC or b is UNSPEC:
                    return UNSPEC
                if not (-32768 <= a <= 65535 and -32768 <= b <= 65535):
                    return UNSPEC
                a &= 0xFFFF
                b &= 0xFFFF
                r = (a & b) if name == "LAND" else ((a | b) if name == "LOR" else (a ^ b))
                return r - 65536 if r >= 32768 else r
            if name == "LNOT":
                a = intarg(v[0])
                if a is UNSPEC or not (-32768 <= a <= 65535):
                    return UNSPEC
                r = (~a) & 0xFFFF
                return r - 65536 if r >= 32768 else r
            if name == "LEN":
                return len(s(v[0]))
            if name == "ASC":
                if s(v[0]) == "":
                    raise B09Error(UNSPEC, "ASC of empty string")
                return ord(v[0][0])
            if name == "CHR$":
                n = intarg(v[0])
                if n is UNSPEC or not (0 <= n <= 255):
                    return UNSPEC
                return chr(n)
            if name == "STR$":
                return b09_num_image(num(v[0]))
            if name == "VAL":
                t = s(v[0]).strip(" ")
                import re as _re
                if _re.fullmatch(r"[+-]?(\d+\.?\d*|\.\d+)", t):
                    return float(t)
                if t == "" or not _re.match(r"[+-]?[\d.$]", t):
                    raise B09Error(UNSPEC, "VAL of non-numeric text")
                return UNSPEC
            past = self.m.world.get("str_past_end")  # None -> UNSPEC, "clamp", "error"
            if name == "LEFT$":
                n = intarg(v[1])
                if n is UNSPEC or n < 0:
                    return UNSPEC
                if n > len(s(v[0])):
                    if past == "error":
                        raise B09Error(UNSPEC, "LEFT$ past the end of the string")
                    if past != "clamp":
                        return UNSPEC
                return v[0][:n]
            if name == "RIGHT$":
                n = intarg(v[1])
                if n is UNSPEC or n < 0:
                    return UNSPEC
                if n > len(s(v[0])):
                    if past == "error":
                        raise B09Error(UNSPEC, "RIGHT$ past the end of the string")
                    if past != "clamp":
                        return UNSPEC
                return v[0][max(0, len(v[0]) - n):] if n else ""
            if name == "MID$":
                p, n = intarg(v[1]), intarg(v[2])
                if p is UNSPEC or n is UNSPEC or p < 0 or n < 0:
                    return UNSPEC
                if p == 0:
                    # position 0 is outside the string: an error, or (lenient) the same as position 1 - run under both
                    if past == "error":
                        raise B09Error(UNSPEC, "MID$ position 0")
                    if past != "clamp":
                        return UNSPEC
                    p = 1
                if p - 1 + n > len(s(v[0])):
                    if past == "error":
                        raise B09Error(UNSPEC, "MID$ past the end of the string")
                    if past != "clamp":
                        return UNSPEC
                return v[0][p - 1:p - 1 + n]
            if name == "TRIM$":
                return s(v[0]).rstrip(" ")
            if name == "SUBSTR":
                a, b = s(v[0]), s(v[1])
                if a == "":
                    return UNSPEC
                i = b.find(a)
                return i + 1
            if name == "TAB":
                n = intarg(v[0])
                return ("TAB", n)
        except (ValueError, OverflowError) as e:
            raise B09Error(UNSPEC, f"{name}: {e}")
        raise ModelAbort("internal", f"function {name}")

    # ---- conditions
    def cond(self, e):
        v = self.ev(e)
        if v is UNSPEC:
            raise ModelAbort("unspec", "condition value")
        if not isinstance(v, bool):
            raise ModelAbort("b09-type-error", "a number is used where BASIC09 needs a BOOLEAN condition")
        return v

    # ---- run loop
    def jump_label(self, n):
        if n not in self.proc.labels:
            raise B09Error(UNSPEC, f"undefined line {n}")
        return self.proc.labels[n]

    def run(self):
        code = self.proc.code
        pc = 0
        m = self.m
        while True:
            m.steps += 1
            if m.steps > m.horizon:
                raise ModelAbort("horizon", "step horizon reached")
            ins = code[pc]
            op = ins[0]
            try:
                pc = self.step(ins, pc)
            except B09Error as err:
                if self.err_handler is not None:
                    self.last_err = err.code
                    pc = self.jump_label(self.err_handler)
                    continue
                raise
            if pc is None:
                return

    def step(self, ins, pc):
        op = ins[0]
        m = self.m
        if op == "nop":
            return pc + 1
        if op == "assign":
            r = self.ref(ins[1])
            v = self.ev(ins[2])
            if isinstance(r, (Cell, dict)):
                raise ModelAbort("type", "assignment to a whole array/record")
            r.set(v)
            return pc + 1
        if op == "jf":
            return pc + 1 if self.cond(ins[1]) else ins[2]
        if op == "jmp":
            return ins[1]
        if op == "jt_label":
            return self.jump_label(ins[2]) if self.cond(ins[1]) else pc + 1
        if op == "goto":
            return self.jump_label(ins[1])
        if op == "gosub":
            self.gosub.append(pc + 1)
            if len(self.gosub) > 60:
                raise ModelAbort("horizon", "gosub depth")
            return self.jump_label(ins[1])
        if op == "return":
            if not self.gosub:
                raise B09Error(UNSPEC, "RETURN without GOSUB")
            return self.gosub.pop()
        if op == "on":
            v = self.ev(ins[1])
            if v is UNSPEC:
                raise ModelAbort("unspec", "ON selector")
            if isinstance(v, (str, bool)):
                raise B09Error(UNSPEC, "ON selector type")
            if isinstance(v, float):
                if v != int(v):
                    raise ModelAbort("unspec", "non-integer ON selector (rounding)")
                v = int(v)
            if 1 <= v <= len(ins[2]):
                if ins[3]:
                    self.gosub.append(pc + 1)
                return self.jump_label(ins[2][v - 1])
            return pc + 1
        if op == "onerror":
            self.err_handler = ins[1]
            return pc + 1
        if op == "for_init":
            r = self.ref(ins[1])
            start, end = self.ev(ins[2]), self.ev(ins[3])
            step = self.ev(ins[4]) if ins[4] is not None else 1
            if start is UNSPEC or end is UNSPEC or step is UNSPEC:
                raise ModelAbort("unspec", "FOR bounds")
            if isinstance(start, (str, bool)) or isinstance(end, (str, bool)) or isinstance(step, (str, bool)):
                raise B09Error(UNSPEC, "FOR bounds type")
            r.set(start)
            self.for_state[ins[5]] = (end, step)
            return pc + 1
        if op == "for_test":
            st = self.for_state.get(ins[2])
            if st is None:
                raise B09Error(UNSPEC, "NEXT without FOR")
            end, step = st
            v = self.read(ins[1])
            if v is UNSPEC:
                raise ModelAbort("unspec", "FOR variable")
            done = v > end if step >= 0 else v < end
            return ins[3] if done else pc + 1
        if op == "for_next":
            st = self.for_state.get(ins[2])
            if st is None:
                raise ModelAbort("unspec", "NEXT reached without its FOR having been executed")
            end, step = st
            r = self.ref(ins[1])
            v = r.get()
            if v is None or v is UNSPEC:
                raise ModelAbort("unspec", "FOR variable")
            r.set(v + step)
            return ins[3]
        if op in ("end", "bye"):
            raise Stop("end")
        if op == "stop":
            raise Stop("stop")
        if op == "falloff":
            return None
        if op == "error":
            c = self.ev(ins[1])
            raise B09Error(c if isinstance(c, int) else UNSPEC, "ERROR statement")
        if op == "restore":
            if ins[1] is None:
                self.data_ptr = 0
            else:
                if ins[1] not in self.proc.data_labels:
                    raise B09Error(UNSPEC, "RESTORE to undefined line")
                self.data_ptr = self.proc.data_labels[ins[1]]
            return pc + 1
        if op == "poke":
            a, v = self.ev(ins[1]), self.ev(ins[2])
            m.trace.append(("POKE", a, v))
            return pc + 1
        if op == "print":
            self.do_print(ins)
            return pc + 1
        if op == "input":
            self.do_input(ins)
            return pc + 1
        if op == "read":
            for t in ins[2]:
                if self.data_ptr >= len(self.proc.data):
                    raise B09Error(79, "out of DATA")
                item = self.proc.data[self.data_ptr]
                self.data_ptr += 1
                r = self.ref(t)
                v = self.ev(item)
                if isinstance(r, (Cell, dict)):
                    raise ModelAbort("type", "READ into whole array")
                tt = r.cell.typ[0]
                if (tt == "STRING") != isinstance(v, str):
                    # READ is a typed assignment of a compiled DATA expression: string <-> number does not convert (this is why
                    # the tool rewrites every DATA item to a string literal once one of them is empty)
                    raise B09Error(UNSPEC, f"READ type mismatch: {v!r} into {tt}")
                r.set(v)
            return pc + 1
        if op == "run":
            self.do_run(ins[1], ins[2])
            return pc + 1
        if op == "io":
            vals = []
            for hashed, e, mode in ins[2]:
                try:
                    vals.append(self.ev(e))
                except ModelAbort:
                    vals.append(UNSPEC)
            m.trace.append(("IO", ins[1], tuple(v if isinstance(v, (int, float, str)) else repr(v) for v in vals)))
            return pc + 1
        if op == "abort":
            raise ModelAbort(ins[1], ins[2])
        raise ModelAbort("internal", f"instruction {op}")

    def do_print(self, ins):
        path, items, using = ins[1], ins[2], ins[3]
        if path is not None:
            self.ev(path)
        toks = []
        for kind, x in items:
            if kind == "sep":
                toks.append(("sep", x))
            else:
                v = self.ev(x)
                if isinstance(v, tuple) and v and v[0] == "TAB":
                    toks.append(("tab", v[1]))
                elif isinstance(v, str):
                    toks.append(("s", v))
                elif v is UNSPEC:
                    toks.append(("s", UNSPEC))
                elif isinstance(v, bool):
                    toks.append(("s", "TRUE" if v else "FALSE"))
                else:
                    toks.append(("rawnum", b09_num_image(v)))
        self.m.trace.append(("PRINT", tuple(toks)) if path is None else ("PRINT#", tuple(toks)))

    def do_input(self, ins):
        path, prompt, targets = ins[1], ins[2], ins[3]
        p = self.ev(prompt) if prompt is not None else None
        names = []
        for t in targets:
            r = self.ref(t)
            if isinstance(r, (Cell, dict)):
                raise ModelAbort("type", "INPUT into whole array")
            if not self.m.inputs:
                raise ModelAbort("horizon", "input script exhausted")
            raw = self.m.inputs.pop(0)
            if r.cell.typ[0] == "STRING":
                r.set(raw)
            else:
                import re as _re
                if _re.fullmatch(r"\s*[+-]?(\d+\.?\d*|\.\d+)\s*", raw):
                    r.set(float(raw))
                else:
                    r.set(UNSPEC)
            names.append(t[1].upper() + ("()" if t[2] else ""))
        self.m.trace.append(("INPUT", p, tuple(names)))

    def do_run(self, name, args):
        m = self.m
        key = name.lower()
        argrefs = []
        vals = []
        for a in args:
            if a[0] == "var":
                try:
                    r = self.ref(a)
                except B09Error:
                    raise
                argrefs.append(r)
                if isinstance(r, Ref):
                    v = r.get()
                    vals.append(v)
                elif isinstance(r, dict):
                    vals.append(("record", a[1].lower()))
                else:
                    vals.append(("array", a[1].lower()))
            else:
                v = self.ev(a)
                argrefs.append(("value", v))
                vals.append(v)
        if key in m.devices:
            m.calls.append((key, tuple(_plain(v) for v in vals)))
            m.devices[key](m, self, argrefs, vals)
            return
        p = m.procs.get(key)
        if p is None:
            m.calls.append((key, tuple(_plain(v) for v in vals)))
            m.trace.append(("RUN", key, tuple(_plain(v) for v in vals)))
            return
        m.calls.append((key, tuple(_plain(v) for v in vals)))
        # uninitialised *input* scalars are detected when the callee reads them (aliasing keeps None)
        try:
            m.call(p, argrefs)
        except Stop as s:
            if s.how == "stop":
                raise
            # END inside a called procedure returns to the caller


class AliasCell(Cell):
    """Parameter bound by reference to a scalar slot."""

    def __init__(self, name, typ, ref):
        self.name = name
        self.typ = ref.cell.typ
        self.dims = ()
        self.base = 0
        self.fields = None
        self.ref = ref
        # a string parameter is a view of the caller's storage with the callee's *declared* length:
        # the callee neither sees nor writes more than that many bytes
        self.view = None
        if typ[0] == "STRING":
            mine, theirs = (typ[1] or 32), (ref.cell.typ[1] or 32)
            if mine < theirs:
                self.view = mine
                self.typ = ("STRING", mine)

    @property
    def data(self):
        return _AliasData(self.ref, self.view)


class _AliasData:
    def __init__(self, ref, view=None):
        self.ref = ref
        self.view = view

    def __getitem__(self, i):
        v = self.ref.get()
        if self.view is not None and isinstance(v, str):
            return v[: self.view]
        return v

    def __setitem__(self, i, v):
        if self.view is not None and isinstance(v, str):
            v = v[: self.view]
        self.ref.cell.data[self.ref.idx] = v


def _plain(v):
    if v is None:
        return "UNDEFINED"
    if v is UNSPEC:
        return "UNSPEC"
    return v


def _raise(e):
    raise e
