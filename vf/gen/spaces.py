"""Shared program spaces for the translator checks (C07, C14, C15, C05, C10 ...)."""
from vf import core
from vf.gen import catalogue as K

CONTEXTS = [
    ("plain", "{}", []),
    ("then", "IF A = 1 THEN {}", []),
    ("else", 'IF A = 1 THEN PRINT "T" ELSE {}', []),
    ("then_else", "IF A = 1 THEN {} ELSE {}", []),
    ("elseif_arm", 'IF A = 1 THEN PRINT "T" ELSE IF A = 2 THEN {}', []),
    ("elseif_else", 'IF A = 1 THEN PRINT "T" ELSE IF A = 2 THEN PRINT "U" ELSE {}', []),
    ("elseif_both", "IF A = 1 THEN {} ELSE IF A = 2 THEN {} ELSE {}", []),
    ("nested_then", "IF A = 1 THEN IF B = 2 THEN {} ELSE {}", []),
    ("colon_after", "B = 2 : {}", []),
    ("colon_before", "{} : B = 2", []),
    ("for_body", "FOR I = 1 TO 2 : {}", ["NEXT I"]),
    ("twice", "{} : {}", []),
    # the statement directly follows a remark / a line whose last statement is a remark / an IF whose branch is a remark
    ("after_rem", "{}", [], ["REM X"]),
    ("after_tick", "{}", [], ["B = 2 ' X"]),
    ("after_then_rem", "{}", [], ["IF A = 1 THEN REM X"]),
    ("after_data", "{}", [], ["DATA 1"]),
    ("after_next", "{}", [], ["FOR I = 1 TO 2 : NEXT I"]),
]


def ctx_parts(c):
    return c[0], c[1], c[2], (c[3] if len(c) > 3 else [])

KEY_NUM = ["var", "conv", "conv_in_builtin", "dev", "conv_elem"]
KEY_STR = ["var", "conv", "conv_in_builtin", "inkey"]


def template_combos(body, full=True):
    sl = K.slots(body)
    defaults = ["7" if x == "n" else '"X"' for x in sl]
    combos = []
    for i, x in enumerate(sl):
        for sn, st in (K.NUM_SHAPES if x == "n" else K.STR_SHAPES):
            sh = list(defaults)
            sh[i] = st
            combos.append((f"slot{i}={sn}", sh))
    if full:
        for sn_n, st_n in K.NUM_SHAPES:
            for sn_s, st_s in (K.STR_SHAPES if "s" in sl else [("-", "")]):
                combos.append((f"all={sn_n}/{sn_s}", [st_n if x == "n" else st_s for x in sl]))
    return combos


def catalogue_in_contexts(run):
    for d in core.cube(run, [("ctx", CONTEXTS), ("stmt", K.CATALOGUE)]):
        name, stmt, alt = d["stmt"]
        cname, ctpl, after, before = ctx_parts(d["ctx"])
        yield K.program_for(before + [ctpl.replace("{}", stmt)] + after), f"ctx:{cname}:{name}"


def templates_plain(run):
    for name, body, after in K.TEMPLATES:
        seen = set()
        for how, sh in template_combos(body):
            text = K.template_program(K.fill(body, sh), after)
            if text in seen:
                continue
            seen.add(text)
            yield text, f"tpl:{name}:{how}"
        run.states += 1 + len(seen)
        run.transitions += len(seen)


def templates_in_contexts(run):
    """every template whose body is a single simple statement, with key shapes in all slots, in every context"""
    num = dict(K.NUM_SHAPES)
    strs = dict(K.STR_SHAPES)
    for name, body, after in K.TEMPLATES:
        if body.startswith(("IF", "FOR", "READ", "ON")) or after:
            continue
        sl = K.slots(body)
        if not sl:
            continue
        seen = set()
        for kn in KEY_NUM:
            for ks in (KEY_STR if "s" in sl else ["var"]):
                filled = K.fill(body, [num[kn] if x == "n" else strs[ks] for x in sl])
                for c in CONTEXTS[1:]:
                    cname, ctpl, cafter, cbefore = ctx_parts(c)
                    text = K.template_program(ctpl.replace("{}", filled), cafter, before=cbefore)
                    if text in seen:
                        continue
                    seen.add(text)
                    yield text, f"tplctx:{cname}:{name}:{kn}/{ks}"
        run.states += 1 + len(seen)
        run.transitions += len(seen)


def crunched_programs(run):
    """the catalogue and every template x operand shape with all optional blanks removed (PALETTERGB, HBUFF1,600, IFA=1THEN..)"""
    n = 0
    for name, stmt, alt in K.CATALOGUE:
        yield K.crunch(K.program_for([stmt])), f"crunched:{name}"
        n += 1
    for name, body, after in K.TEMPLATES:
        seen = set()
        for how, sh in template_combos(body, full=False):
            text = K.crunch(K.template_program(K.fill(body, sh), after))
            if text in seen:
                continue
            seen.add(text)
            yield text, f"crunched-tpl:{name}:{how}"
        n += len(seen)
    run.states += n
    run.transitions += n


def all_programs(run):
    yield from catalogue_in_contexts(run)
    yield from templates_plain(run)
    yield from templates_in_contexts(run)
    yield from crunched_programs(run)


# ------------------------------------------------------------------ FOR/NEXT structures
LOOP_VARS = ["I", "J", "K"]


def balanced_for_structures(maxlen, maxdepth=3):
    """Every lexically balanced FOR/NEXT skeleton with at most `maxlen` statements and nesting `maxdepth`:
    statements are FOR <v>, a marker PRINT, or a NEXT in any spelling that closes the innermost 1..n open loops
    (bare, with the variable, or a variable list inner-first).  Yields lists of statements."""
    out = []

    def rec(seq, stack, marks):
        if not stack and seq:
            out.append(list(seq))
        if len(seq) >= maxlen:
            return
        # room check: every open loop still needs at least one statement... (lists can close several at once)
        if len(stack) < maxdepth:
            for v in LOOP_VARS:
                if v not in stack:
                    rec(seq + [f"FOR {v} = 1 TO 2"], stack + [v], marks)
                    break  # variables are interchangeable: take the first unused one (canonical order) ...
            # ... except that order matters for the NEXT patcher, so also open the *last* unused variable
            unused = [v for v in LOOP_VARS if v not in stack]
            if len(unused) > 1:
                rec(seq + [f"FOR {unused[-1]} = 1 TO 2"], stack + [unused[-1]], marks)
        if marks < 2:
            rec(seq + [f'PRINT "{marks}"'], stack, marks + 1)
        if stack:
            rec(seq + ["NEXT"], stack[:-1], marks)
            for n in range(1, len(stack) + 1):
                closing = list(reversed(stack[-n:]))
                rec(seq + ["NEXT " + " , ".join(closing)], stack[:-n], marks)

    rec([], [], 0)
    return out


STRUCT_ALPHABET = ["FOR I = 1 TO 2", "FOR J = 1 TO 2", "NEXT", "NEXT I", "NEXT J", "NEXT I , J", "NEXT J , I", "NEXT J , I , K", 'PRINT "M"', "IF A = 1 THEN NEXT", "IF A = 1 THEN FOR K = 1 TO 2",
                   "GOSUB 100", "RETURN", "IF A = 1 THEN RETURN ELSE NEXT I"]


def any_structures(maxlen):
    """Every sequence of at most `maxlen` statements over STRUCT_ALPHABET (balanced or not)."""
    import itertools
    for ln in range(1, maxlen + 1):
        yield from (list(s) for s in itertools.product(STRUCT_ALPHABET, repeat=ln))


def layouts_of(stmts):
    """one statement per line / all on one line (IF-bearing statements end their line)"""
    yield K.program_for(stmts), "lines"
    if len(stmts) > 1 and not any(s.startswith("IF") for s in stmts[:-1]):
        yield K.program_for([" : ".join(stmts)]), "oneline"
