"""Shared program spaces for the translator checks (C07, C14, C15, C05, C10 ...)."""
from vf import core
from vf.gen import catalogue as K

CONTEXTS = [
    ("plain", "{}", []),
    ("then", "IF A = 1 THEN {}", []),
    ("else", 'IF A = 1 THEN PRINT "T" ELSE {}', []),
    ("then_else", "IF A = 1 THEN {} ELSE {}", []),
    ("elseif_arm", 'IF A = 1 THEN PRINT "T" ELSE IF A = 2 THEN {}', []),
    ("elseif_else", 'IF A = 1 THEN PRINT "T" ELSE IF A = 2 THEN PRINT "U" ELSE {}', []),
    ("elseif_both", "IF A = 1 THEN {} ELSE IF A = 2 THEN {} ELSE {}", []),
    ("nested_then", "IF A = 1 THEN IF B = 2 THEN {} ELSE {}", []),
    ("colon_after", "B = 2 : {}", []),
    ("colon_before", "{} : B = 2", []),
    ("for_body", "FOR I = 1 TO 2 : {}", ["NEXT I"]),
    ("twice", "{} : {}", []),
]

KEY_NUM = ["var", "conv", "conv_in_builtin", "dev", "conv_elem"]
KEY_STR = ["var", "conv", "conv_in_builtin", "inkey"]


def template_combos(body, full=True):
    sl = K.slots(body)
    defaults = ["7" if x == "n" else '"X"' for x in sl]
    combos = []
    for i, x in enumerate(sl):
        for sn, st in (K.NUM_SHAPES if x == "n" else K.STR_SHAPES):
            sh = list(defaults)
            sh[i] = st
            combos.append((f"slot{i}={sn}", sh))
    if full:
        for sn_n, st_n in K.NUM_SHAPES:
            for sn_s, st_s in (K.STR_SHAPES if "s" in sl else [("-", "")]):
                combos.append((f"all={sn_n}/{sn_s}", [st_n if x == "n" else st_s for x in sl]))
    return combos


def catalogue_in_contexts(run):
    for d in core.cube(run, [("ctx", CONTEXTS), ("stmt", K.CATALOGUE)]):
        name, stmt, alt = d["stmt"]
        cname, ctpl, after = d["ctx"]
        if stmt.startswith(("DATA", "REM", "'")) and ctpl.count("{}") > 1:
            pass
        yield K.program_for([ctpl.replace("{}", stmt)] + after), f"ctx:{cname}:{name}"


def templates_plain(run):
    for name, body, after in K.TEMPLATES:
        seen = set()
        for how, sh in template_combos(body):
            text = K.template_program(K.fill(body, sh), after)
            if text in seen:
                continue
            seen.add(text)
            yield text, f"tpl:{name}:{how}"
        run.states += 1 + len(seen)
        run.transitions += len(seen)


def templates_in_contexts(run):
    """every template whose body is a single simple statement, with key shapes in all slots, in every context"""
    num = dict(K.NUM_SHAPES)
    strs = dict(K.STR_SHAPES)
    for name, body, after in K.TEMPLATES:
        if body.startswith(("IF", "FOR", "READ", "ON")) or after:
            continue
        sl = K.slots(body)
        if not sl:
            continue
        seen = set()
        for kn in KEY_NUM:
            for ks in (KEY_STR if "s" in sl else ["var"]):
                filled = K.fill(body, [num[kn] if x == "n" else strs[ks] for x in sl])
                for cname, ctpl, cafter in CONTEXTS[1:]:
                    text = K.template_program(ctpl.replace("{}", filled), cafter)
                    if text in seen:
                        continue
                    seen.add(text)
                    yield text, f"tplctx:{cname}:{name}:{kn}/{ks}"
        run.states += 1 + len(seen)
        run.transitions += len(seen)


def all_programs(run):
    yield from catalogue_in_contexts(run)
    yield from templates_plain(run)
    yield from templates_in_contexts(run)
