"""Input-side features of a Color BASIC source text (used only to match known findings
and to delimit fragments).  Computed from the *source*, never from the tool's output."""
import re

CONVERTIBLE = {"INT", "VAL", "STR$", "HEX$", "INSTR", "STRING$", "INKEY$", "BUTTON", "JOYSTK", "POINT"}
BUILTIN = {"ABS", "ATN", "COS", "EXP", "FIX", "LEN", "LOG", "PEEK", "RND", "SGN", "SIN", "SQR", "TAN", "LEFT$", "RIGHT$", "MID$", "ASC", "CHR$", "TAB", "VARPTR"}
TOK = re.compile(r'"[^"\n]*"?|[A-Z][A-Z0-9]*\$?|\d+\.?\d*|&H[0-9A-F]*|<=|>=|<>|=<|=>|[^\sA-Z0-9]')
B09_ONLY_RESERVED2 = {"DO", "PI", "SQ"}
KEYWORD_PREFIXES = None


# reserved words of Color / Extended / Super Extended BASIC (the interpreter tokenises them wherever they occur, with or without
# surrounding blanks) - used to read crunched spellings such as IFJOYSTK(0)=1THENPRINT"T" the way Color BASIC does
DECB_WORDS = ("FOR GO REM ELSE IF DATA PRINT ON INPUT END NEXT DIM READ RUN RESTORE RETURN STOP POKE CONT LIST CLEAR NEW CLOAD CSAVE OPEN CLOSE LLIST SET RESET CLS MOTOR SOUND AUDIO EXEC SKIPF "
              "TAB TO SUB THEN NOT STEP OFF AND OR SGN INT ABS USR RND SIN PEEK LEN STR$ VAL ASC CHR$ EOF JOYSTK LEFT$ RIGHT$ MID$ POINT INKEY$ MEM "
              "DEL EDIT TRON TROFF DEF LET LINE PCLS PSET PRESET SCREEN PCLEAR COLOR CIRCLE PAINT GET PUT DRAW PCOPY PMODE PLAY DLOAD RENUM FN USING ATN COS TAN EXP FIX LOG POS SQR HEX$ VARPTR INSTR "
              "TIMER PPOINT STRING$ WIDTH PALETTE HSCREEN LPOKE HCLS HCOLOR HPAINT HCIRCLE HLINE HGET HPUT HBUFF HPRINT ERR BRK LOCATE HSTAT HSET HRESET HDRAW CMP RGB ATTR LPEEK BUTTON HPOINT "
              "ERNO ERLIN GOTO GOSUB XOR").split()
_WORDS_LONGEST_FIRST = sorted(set(DECB_WORDS), key=lambda w: (-len(w), w))


def decb_split(line):
    """Insert blanks around every reserved word outside string literals / comments / DATA (what the Color BASIC cruncher sees).
    Content (string literals, DATA items, remarks) is copied verbatim."""
    out = []  # (is_content, text)
    i, n = 0, len(line)
    while i < n:
        c = line[i]
        if c == '"':
            j = line.find('"', i + 1)
            j = n - 1 if j < 0 else j
            out.append((True, line[i : j + 1]))
            i = j + 1
            continue
        if c == "'":
            out.append((True, line[i:]))
            break
        if c.isalpha():
            for w in _WORDS_LONGEST_FIRST:
                if line.startswith(w, i):
                    break
            else:
                w = None
            if w == "REM":
                out.append((False, " "))
                out.append((True, line[i:]))
                break
            if w == "DATA":
                j = line.find(":", i)
                j = n if j < 0 else j
                out.append((False, " "))
                out.append((True, line[i:j]))
                i = j
                continue
            if w:
                out.append((False, " " + w + " "))
                i += len(w)
                continue
        out.append((False, c))
        i += 1
    res = []
    code = []
    for is_content, t in out:
        if is_content:
            res.append(re.sub(r" +", " ", "".join(code)))
            code = []
            res.append(t)
        else:
            code.append(t)
    res.append(re.sub(r" +", " ", "".join(code)))
    return "".join(res)


def strip_comment(line):
    out = []
    q = False
    i = 0
    while i < len(line):
        c = line[i]
        if c == '"':
            q = not q
        if not q and (c == "'" or line.startswith("REM", i)):
            break
        out.append(c)
        i += 1
    return "".join(out)


def statements_of(text):
    """[(lineno_text, [statement strings])] split on ':' outside strings (DATA swallows to end of line? no: ':' ends DATA)"""
    res = []
    for raw in re.split(r"[\r\n]+", text):
        raw = raw.strip("\x00")
        m = re.match(r"\s*(\d+)\s*(.*)$", raw)
        if not m:
            continue
        body = strip_comment(decb_split(m.group(2)))
        stmts = []
        cur = []
        q = False
        for c in body:
            if c == '"':
                q = not q
            if c == ":" and not q:
                stmts.append("".join(cur))
                cur = []
            else:
                cur.append(c)
        stmts.append("".join(cur))
        res.append((m.group(1), stmts))
    return res


def nesting_features(stmt):
    """conv-inside-builtin / conv-inside-conv / conv-inside-array-subscript by a paren-stack walk."""
    f = set()
    toks = TOK.findall(stmt)
    stack = []  # names owning each open paren
    prev = None
    for t in toks:
        if t == "(":
            stack.append(prev if prev and re.match(r"[A-Z]", prev) else "(")
        elif t == ")":
            if stack:
                stack.pop()
        elif t in CONVERTIBLE:
            owners = [s for s in stack if s != "("]
            if any(o in BUILTIN for o in owners):
                f.add("conv-inside-builtin")
            if any(o in CONVERTIBLE for o in owners):
                f.add("conv-inside-conv")
            if any(o not in BUILTIN and o not in CONVERTIBLE and o not in STATEMENT_HEADS for o in owners):
                f.add("conv-inside-subscript")
            f.add("has-conv")
        prev = t
    return f


STATEMENT_HEADS = {"HCIRCLE", "HLINE", "HSET", "HRESET", "HPAINT", "HPRINT", "HGET", "HPUT", "SET", "RESET", "TAB", "PRINT", "IF", "THEN", "ELSE", "AND", "OR", "NOT"}


def source_features(text):
    f = set()
    for _, stmts in statements_of(text):
        line_has_if = False
        for st in stmts:
            s = st.strip()
            nf = nesting_features(s)
            f |= nf
            head = re.match(r"[A-Z]+\$?", s)
            hw = head.group(0) if head else ""
            if "has-conv" in nf:
                nostr = re.sub(r'"[^"]*"?', '""', s)
                for part in re.split(r"THEN|ELSE", nostr):
                    part = part.strip()
                    if not (TOKSET(part) & CONVERTIBLE):
                        continue
                    if part.startswith("READ"):
                        f.add("conv-in-read")
                    if part.startswith("INPUT") or part.startswith("LINE"):
                        f.add("conv-in-input")
                    if part.startswith("WIDTH"):
                        f.add("conv-in-width")
                if hw.startswith("IF") and re.search(r"\bELSE\b|ELSE", s):
                    # which part holds the convertible call?
                    m = re.match(r"IF(.*?)THEN", s)
                    if m and (TOKSET(m.group(1)) & CONVERTIBLE):
                        f.add("conv-in-ifelse-cond")
                    for m2 in re.finditer(r"ELSE\s*IF(.*?)THEN", s):
                        if TOKSET(m2.group(1)) & CONVERTIBLE:
                            f.add("conv-in-elseif-cond")
                if hw.startswith("HCIRCLE") and re.search(r",\s*,", s):
                    f.add("conv-in-hcircle-default-color")
                if re.match(r"(LET\s*)?[A-Z][A-Z0-9]*\$?\s*(\(.*\))?\s*=\s*(INT|VAL|STR\$|HEX\$|INSTR|STRING\$|BUTTON|JOYSTK|POINT)\s*\(", s):
                    m3 = re.search(r"=\s*(INT|VAL|STR\$|HEX\$|INSTR|STRING\$|BUTTON|JOYSTK|POINT)\s*\((.*)\)\s*$", s)
                    if m3 and (TOKSET(m3.group(2)) & CONVERTIBLE):
                        f.add("direct-conv-assign-with-conv-arg")
            for mh in re.finditer(r"HPRINT", s):
                i = s.find("(", mh.end())
                depth = 0
                j = i
                while 0 <= j < len(s):
                    if s[j] == "(":
                        depth += 1
                    elif s[j] == ")":
                        depth -= 1
                        if depth == 0:
                            break
                    j += 1
                m = re.match(r"\s*,\s*(.*)$", s[j + 1:]) if i >= 0 else None
                if m and not re.match(r'\s*("|[A-Z][A-Z0-9]*\$|LEFT\$|RIGHT\$|MID\$|CHR\$|STR\$|HEX\$|STRING\$|INKEY\$)', m.group(1)):
                    f.add("hprint-numeric")
            if "JOYSTK" in TOKSET(s):
                f.add("uses-joystk")
            for v in re.findall(r"(?<![A-Z0-9$\"])([A-Z][A-Z0-9]*)\$?", re.sub(r'"[^"]*"?', '""', s)):
                if v[:2] in B09_ONLY_RESERVED2 and v not in ALL_KEYWORDS:
                    f.add("varname-b09-reserved")
    return f


def TOKSET(s):
    return set(TOK.findall(s))


ALL_KEYWORDS = {
    "ABS", "AND", "ASC", "ATN", "ATTR", "BRK", "BUTTON", "CLS", "CLEAR", "CMP", "COS", "DATA", "DIM", "ELSE", "END", "ERNO", "ERR", "EXP", "FIX", "FOR", "GOSUB", "GOTO",
    "HBUFF", "HCIRCLE", "HCLS", "HCOLOR", "HLINE", "HPAINT", "HPRINT", "HPUT", "HGET", "HRESET", "HSET", "HSCREEN", "HDRAW", "IF", "INPUT", "INSTR", "INT", "JOYSTK", "LEFT", "LEN", "LET", "LINE",
    "LOCATE", "LOG", "NOT", "OR", "NEXT", "OPEN", "PALETTE", "PEEK", "PLAY", "POKE", "PRESET", "PRINT", "PSET", "READ", "REM", "RESET", "RESTORE", "RETURN", "RGB", "RND", "SET", "SGN", "SIN",
    "SOUND", "SQR", "SQRT", "STEP", "STOP", "TAB", "TAN", "THEN", "TO", "TROFF", "TRON", "WIDTH", "VAL", "VARPTR", "POINT", "ON", "DO",
} - {"DO"}
