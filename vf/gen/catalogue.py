"""Statement catalogue: at least one entry for every alternative of the live grammar's
`statement` rule x presence patterns of optional parts.  Entries are written in a
canonical single-blank-separated spelling; `tokens()` splits them into lexical tokens
(the unit of the layout and mutation generators)."""
import re

TOKEN_RE = re.compile(
    r'"[^"]*"?'  # string literal (possibly unterminated at end of line)
    r"|&H[0-9A-F]+"
    r"|[A-Z][A-Z0-9]*\$?"
    r"|\d+\.\d*(?:E[+-]?\d+)?|\.\d+(?:E[+-]?\d+)?|\d+(?:E[+-]?\d+)?"
    r"|<=|>=|<>|=<|=>"
    r"|[^\sA-Z0-9]"
)


def tokens(stmt):
    """Token list of a catalogue statement. REM / ' comments and DATA items keep their
    text as single tokens."""
    out = []
    s = stmt
    m = re.match(r"(.*?)(\bREM\b|')(.*)$", s) if ("REM" in s or "'" in s) and not s.lstrip().startswith("DATA") else None
    if m and m.group(1).count('"') % 2 == 0:
        head, kw, text = m.groups()
        out = TOKEN_RE.findall(head) + [kw]
        if text:
            out.append(("TEXT", text))
        return out
    if s.lstrip().startswith("DATA"):
        out = ["DATA"]
        rest = s.lstrip()[4:]
        first = True
        for item in rest.split(","):
            if not first:
                out.append(",")
            first = False
            it = item.strip(" ")
            if it != "":
                out.append(("ITEM", it))
        return out
    return TOKEN_RE.findall(s)


# (name, statement text, grammar alternative it is meant to hit, needs)  -- needs: extra lines required for a
# self-contained program (line targets, DIMs)
RAW = [
    ("if_then_stmt", 'IF A = 1 THEN PRINT "T"', "if_stmnt"),
    ("if_then_line", "IF A = 1 THEN 100", "if_stmnt"),
    ("if_num_cond", 'IF A THEN PRINT "T"', "if_stmnt"),
    ("if_not", 'IF NOT A = 1 THEN PRINT "T"', "if_stmnt"),
    ("if_and_or", 'IF A = 1 AND B < 2 OR C >= 3 THEN PRINT "T"', "if_stmnt"),
    ("if_paren", 'IF ( A = 1 OR B = 2 ) AND C <> 3 THEN PRINT "T"', "if_stmnt"),
    ("if_str_cmp", 'IF A$ = "X" THEN PRINT "T"', "if_stmnt"),
    ("if_else", 'IF A = 1 THEN PRINT "T" ELSE PRINT "F"', "if_else_stmnt"),
    ("if_else_lines", "IF A = 1 THEN 100 ELSE 110", "if_else_stmnt"),
    ("if_elseif", 'IF A = 1 THEN PRINT "T" ELSE IF A = 2 THEN PRINT "U" ELSE PRINT "F"', "if_if_else_stmnt"),
    ("if_elseif_noelse", 'IF A = 1 THEN PRINT "T" ELSE IF A = 2 THEN PRINT "U"', "if_if_else_stmnt"),
    ("if_elseif_lines", "IF A = 1 THEN 100 ELSE IF A = 2 THEN 110 ELSE 100", "if_if_else_stmnt"),
    ("if_nested", 'IF A = 1 THEN IF B = 2 THEN PRINT "T" ELSE PRINT "F"', "if_stmnt"),
    ("if_multi", 'IF A = 1 THEN B = 2 : C = 3', "if_stmnt"),
    ("print_at", 'PRINT @ 32 , "X" ; A', "print_at_statement"),
    ("print_at_q", '? @ A + 1 , B$', "print_at_statement"),
    ("print_at0", "PRINT @ 64", "print_at_statement0"),
    ("print_empty", "PRINT", "print_statement"),
    ("print_items", 'PRINT "X" ; A , B$ ;', "print_statement"),
    ("print_q", '? A ; "X"', "print_statement"),
    ("print_juxta", 'PRINT "A=" A "B=" B$', "print_statement"),
    ("print_tab", 'PRINT TAB( 5 ) ; "X"', "print_statement"),
    ("print_fn", "PRINT INT( A ) ; STR$( B ) ; HEX$( 255 )", "print_statement"),
    ("num_assign", "A = B + 1", "num_assign"),
    ("num_assign_let", "LET A = 5", "num_assign"),
    ("num_assign_expr", "A = ( B + 2 ) * C - 4 / 2 ^ 2", "num_assign"),
    ("num_assign_logic", "A = NOT B AND 3 OR C", "num_assign"),
    ("num_assign_neg", "A = - B + - 1", "num_assign"),
    ("num_assign_lit", "A = 1.5E3 + &HFF + .5", "num_assign"),
    ("num_assign_fn", "A = ABS( B ) + SGN( C ) + SQR( 4 ) + LEN( A$ ) + ASC( B$ ) + PEEK( 1024 )", "num_assign"),
    ("num_assign_fn2", "A = INT( B ) + VAL( A$ ) + INSTR( 1 , A$ , B$ )", "num_assign"),
    ("num_assign_trig", "A = SIN( B ) + COS( B ) + TAN( B ) + ATN( B ) + EXP( B ) + LOG( B ) + FIX( B ) + RND( 10 )", "num_assign"),
    ("num_assign_dev", "A = JOYSTK( 0 ) + BUTTON( 1 ) + POINT( 2 , 3 )", "num_assign"),
    ("num_assign_direct_int", "A = INT( B )", "num_assign"),
    ("num_assign_direct_val", "A = VAL( A$ )", "num_assign"),
    ("num_assign_direct_instr", 'A = INSTR( 1 , A$ , "X" )', "num_assign"),
    ("num_assign_direct_joystk", "A = JOYSTK( 0 )", "num_assign"),
    ("num_assign_direct_button", "A = BUTTON( 0 )", "num_assign"),
    ("num_assign_direct_point", "A = POINT( 1 , 2 )", "num_assign"),
    ("arr_assign_direct_int", "M( 1 ) = INT( B )", "arr_assign"),
    ("num_assign_nested_fn", "A = INT( INT( B ) / 2 )", "num_assign"),
    ("num_assign_fn_in_builtin", "A = ABS( INT( B ) )", "num_assign"),
    ("num_assign_varptr", "A = VARPTR( B )", "num_assign"),
    ("num_assign_erno", "A = ERNO", "num_assign"),
    ("str_assign", 'A$ = B$ + "X"', "str_assign"),
    ("str_assign_let", 'LET A$ = "HI"', "str_assign"),
    ("str_assign_fn", "A$ = LEFT$( B$ , 2 ) + RIGHT$( B$ , 1 ) + MID$( B$ , 2 , 1 ) + CHR$( 65 )", "str_assign"),
    ("str_assign_fn2", 'A$ = STR$( A ) + HEX$( B ) + STRING$( 3 , "X" ) + INKEY$', "str_assign"),
    ("str_assign_direct_inkey", "A$ = INKEY$", "str_assign"),
    ("str_assign_direct_str", "A$ = STR$( A )", "str_assign"),
    ("str_assign_direct_hex", "A$ = HEX$( A )", "str_assign"),
    ("str_assign_direct_string", 'A$ = STRING$( 3 , "X" )', "str_assign"),
    ("str_arr_assign_direct", "N$( 1 ) = INKEY$", "str_arr_assign"),
    ("str_assign_fn_in_builtin", "A$ = LEFT$( STR$( A ) , 2 )", "str_assign"),
    ("arr_assign", "M( 1 ) = A", "arr_assign"),
    ("arr_assign2", "M( A , B + 1 ) = M( 1 , 2 ) + 1", "arr_assign"),
    ("arr_assign_let", "LET M( 2 ) = 3", "arr_assign"),
    ("str_arr_assign", 'N$( 1 ) = "X" + N$( 2 )', "str_arr_assign"),
    ("sound", "SOUND 100 , A", "sound"),
    ("on_goto3", "ON A GOTO 100 , 110 , 100", "on_n_go_statement"),
    ("on_gosub3", "ON A GOSUB 100 , 110 , 100 , 110", "on_n_go_statement"),
    ("poke", "POKE 1024 , A", "poke_statement"),
    ("poke_fast", "POKE 65497 , 0", "poke_statement"),
    ("poke_slow", "POKE &HFFD8 , 0", "poke_statement"),
    ("cls", "CLS", "cls"),
    ("cls_n", "CLS 3", "cls"),
    ("goto", "GOTO 100", "go_statement"),
    ("gosub", "GOSUB 100", "go_statement"),
    ("on_brk", "ON BRK GOTO 100", "on_brk_go_statement"),
    ("on_err", "ON ERR GOTO 110", "on_err_go_statement"),
    ("on_goto", "ON A GOTO 100 , 110", "on_n_go_statement"),
    ("on_gosub", "ON A + 1 GOSUB 100", "on_n_go_statement"),
    ("reset", "RESET( 1 , 2 )", "statement2"),
    ("set", "SET( A , B , 3 )", "statement3"),
    ("data_num", "DATA 1 , -2.5 , &HFF", "data_statement"),
    ("data_str", 'DATA "A B" , C D , X', "data_statement"),
    ("data_empty", "DATA 1 , , 3", "data_statement"),
    ("end", "END", "single_kw_statement"),
    ("stop", "STOP", "single_kw_statement"),
    ("restore", "RESTORE", "single_kw_statement"),
    ("return", "RETURN", "single_kw_statement"),
    ("tron", "TRON", "single_kw_statement"),
    ("troff", "TROFF", "single_kw_statement"),
    ("for_step", "FOR I = 1 TO 10 STEP 2", "for_step_statement"),
    ("for", "FOR I = A TO B + 1", "for_statement"),
    ("next_var", "NEXT I", "next_statement"),
    ("next_vars", "NEXT J , I", "next_statement"),
    ("next_bare", "NEXT", "next_statement"),
    ("dim1", "DIM M( 5 )", "dim_statement"),
    ("dim_multi", "DIM M( 2 , 3 ) , N$( &H4 ) , Q( 1 , 2 , 3 ) , S$ , T", "dim_statement"),
    ("clear", "CLEAR 200", "clear_statement"),
    ("clear0", "CLEAR", "clear_statement"),
    ("read", "READ A , B$ , M( 1 )", "read_statement"),
    ("input", "INPUT A", "input_statement"),
    ("input_prompt", 'INPUT "NAME" ; A$ , B', "input_statement"),
    ("line_input", 'LINE INPUT "TEXT" ; A$', "input_statement"),
    ("line_input0", "LINE INPUT A$", "input_statement"),
    ("width", "WIDTH 40", "width_statement"),
    ("locate", "LOCATE 1 , 2", "locate_statement"),
    ("attr", "ATTR 1 , 2", "attr_statement"),
    ("attr_bu", "ATTR A , 2 , B , U", "attr_statement"),
    ("cmp", "CMP", "reset_colors_statement"),
    ("rgb", "RGB", "reset_colors_statement"),
    ("palette_cmp", "PALETTE CMP", "palette_reset_statement"),
    ("palette_rgb", "PALETTE RGB", "palette_reset_statement"),
    ("palette", "PALETTE 1 , 63", "palette_statement"),
    ("hscreen", "HSCREEN 2", "hscreen_statement"),
    ("hscreen0", "HSCREEN", "hscreen_statement"),
    ("hcls", "HCLS 1", "hcls_statement"),
    ("hcls0", "HCLS", "hcls_statement"),
    ("harc", "HCIRCLE ( 10 , 20 ) , 30 , 1 , 0.5 , 0.1 , 0.6", "harc_statement"),
    ("harc_nocolor", "HCIRCLE ( 10 , 20 ) , 30 , , 0.5 , 0.1 , 0.6", "harc_statement"),
    ("hellipse", "HCIRCLE ( 10 , 20 ) , 30 , 1 , 0.5", "hellipse_statement"),
    ("hellipse_nocolor", "HCIRCLE ( 10 , 20 ) , 30 , , 0.5", "hellipse_statement"),
    ("hcircle", "HCIRCLE ( 10 , 20 ) , 30", "hcircle_statement"),
    ("hcircle_color", "HCIRCLE ( A , B ) , C , 2", "hcircle_statement"),
    ("hprint", 'HPRINT ( 1 , 2 ) , "HI"', "hprint_statement"),
    ("hprint_num", "HPRINT ( 1 , 2 ) , A", "hprint_statement"),
    ("hcolor", "HCOLOR 1 , 2", "hcolor_statement"),
    ("hcolor1", "HCOLOR 3", "hcolor1_statement"),
    ("hline_rel", "HLINE - ( 10 , 20 ) , PSET", "hline_relative_statement"),
    ("hline_rel_b", "HLINE - ( 10 , 20 ) , PRESET , B", "hline_relative_statement"),
    ("hline", "HLINE ( 1 , 2 ) - ( 10 , 20 ) , PSET", "hline_statement"),
    ("hline_bf", "HLINE ( 1 , 2 ) - ( A , B ) , PRESET , BF", "hline_statement"),
    ("hreset", "HRESET ( 1 , 2 )", "hreset_statement"),
    ("hset3", "HSET ( 1 , 2 , 3 )", "hset3_statement"),
    ("hset", "HSET ( A , B )", "hset_statement"),
    ("play", 'PLAY "CDE"', "play_statement"),
    ("play_var", "PLAY A$ + B$", "play_statement"),
    ("hdraw", 'HDRAW "BM10,10R5"', "hdraw_statement"),
    ("hbuff", "HBUFF 1 , 100", "hbuff_statement"),
    ("hget", "HGET ( 1 , 2 ) - ( 10 , 20 ) , 1", "hget_statement"),
    ("hput", "HPUT ( 1 , 2 ) - ( 10 , 20 ) , 1 , PSET", "hput_statement"),
    ("hput_and", "HPUT ( 1 , 2 ) - ( 10 , 20 ) , A , AND", "hput_statement"),
    ("hpaint", "HPAINT ( 1 , 2 )", "hpaint_statement"),
    ("hpaint1", "HPAINT ( 1 , 2 ) , 3", "hpaint_statement"),
    ("hpaint2", "HPAINT ( 1 , 2 ) , 3 , 4", "hpaint_statement"),
    ("rem", "REM HELLO  WORLD", None),
    ("tick", "' HELLO  WORLD", None),
    ("partial_str", 'A$ = "UNTERMINATED', None),
    ("partial_str_arr", 'N$( 1 ) = "UNTERMINATED', None),
]

CATALOGUE = [(n, s, alt) for (n, s, alt) in RAW]
BY_NAME = {n: s for n, s, _ in RAW}

# lines appended so that every line reference in a catalogue statement resolves
TARGET_LINES = ['100 PRINT "L100"', '110 PRINT "L110"']


def program_for(stmts, start=10, step=10, with_targets=True):
    """Numbered program holding the given statements one per line (statements may also
    be ':'-joined by the caller)."""
    lines = []
    n = start
    for s in stmts:
        lines.append(f"{n} {s}")
        n += step
    if with_targets:
        lines += TARGET_LINES
    return "\n".join(lines) + "\n"


def canon(stmt):
    """Canonical natural spelling: single blanks between tokens as written."""
    return stmt


def grammar_alternatives():
    from coco.b09.grammar import grammar
    return [m.name for m in grammar["statement"].members]


def which_alternative(stmt):
    """Name of the `statement` alternative the live grammar picks for this text (None when
    the statement rule does not consume the whole text)."""
    from coco.b09.grammar import grammar
    try:
        node = grammar["statement"].match(stmt)
    except Exception:
        return None
    if node.end != len(stmt.rstrip()) and node.end != len(stmt):
        return None
    return node.children[0].expr_name if node.children else None


# ---------------------------------------------------------------------------------------
# Statement templates with typed operand slots ({n} numeric, {s} string).  Each is a full
# line body (may contain ':'), `after` lines close loops.  Used by C04/C05/C07/C10/C14.
TEMPLATES = [
    # name, body, after-lines
    ("assign", "Z = {n}", []),
    ("assign_arr", "M( {n} ) = {n}", []),
    ("assign_arr2", "Q( {n} , {n} ) = 1", []),
    ("assign_str", "Z$ = {s}", []),
    ("assign_str_arr", "N$( {n} ) = {s}", []),
    ("assign_sum", "Z = {n} + {n}", []),
    ("assign_rhs_sub", "Z = M( {n} ) + 1", []),
    ("if", 'IF {n} = 1 THEN PRINT "T"', []),
    ("if_num", 'IF {n} THEN PRINT "T"', []),
    ("if_str", 'IF {s} = "X" THEN PRINT "T"', []),
    ("if_goto", "IF {n} > 1 THEN 100", []),
    ("if_else", 'IF {n} = 1 THEN PRINT "T" ELSE PRINT "F"', []),
    ("if_else_num", 'IF {n} THEN PRINT "T" ELSE PRINT "F"', []),
    ("if_elseif", 'IF {n} = 1 THEN PRINT "T" ELSE IF {n} = 2 THEN PRINT "U" ELSE PRINT "F"', []),
    ("if_then_stmt", "IF A = 1 THEN Z = {n}", []),
    ("if_else_stmt", "IF A = 1 THEN Z = 1 ELSE Z = {n}", []),
    ("if_elseif_stmt", "IF A = 1 THEN Z = 1 ELSE IF A = 2 THEN Z = {n} ELSE Z = {n}", []),
    ("for", "FOR I = {n} TO {n} STEP {n}", ["NEXT I"]),
    ("for2", "FOR I = 1 TO {n}", ["NEXT"]),
    ("print", "PRINT {n} ; {s}", []),
    ("print2", 'PRINT "V=" ; {n} , {n}', []),
    ("print_at", "PRINT @ {n} , {s} ; {n}", []),
    ("print_at0", "PRINT @ {n}", []),
    ("print_tab", 'PRINT TAB( {n} ) ; "X"', []),
    ("on_goto", "ON {n} GOTO 100 , 110", []),
    ("on_gosub", "ON {n} GOSUB 100", []),
    ("read_sub", "READ M( {n} )", ["DATA 1"]),
    ("input_sub", "INPUT M( {n} )", []),
    ("for_oneline_end", "FOR I = 1 TO {n} : Z = Z + 1 : NEXT I", []),
    ("for_oneline_start", "FOR I = {n} TO 9 : Z = Z + 1 : NEXT I", []),
    ("for_oneline_step", "FOR I = 1 TO 9 STEP {n} : Z = Z + 1 : NEXT", []),
    ("poke", "POKE {n} , {n}", []),
    ("poke_fast", "POKE 65497 , {n}", []),
    ("poke_slow", "POKE 65496 , {n}", []),
    ("poke_slow_hex", "POKE &HFFD8 , {n}", []),
    ("sound", "SOUND {n} , {n}", []),
    ("cls", "CLS {n}", []),
    ("set", "SET( {n} , {n} , {n} )", []),
    ("reset", "RESET( {n} , {n} )", []),
    ("width", "WIDTH {n}", []),
    ("locate", "LOCATE {n} , {n}", []),
    ("attr", "ATTR {n} , {n} , B , U", []),
    ("attr0", "ATTR {n} , {n}", []),
    ("palette", "PALETTE {n} , {n}", []),
    ("hscreen", "HSCREEN {n}", []),
    ("hcls", "HCLS {n}", []),
    ("hcolor", "HCOLOR {n} , {n}", []),
    ("hcolor1", "HCOLOR {n}", []),
    ("hcircle", "HCIRCLE ( {n} , {n} ) , {n}", []),
    ("hcircle_c", "HCIRCLE ( {n} , {n} ) , {n} , {n}", []),
    ("hellipse", "HCIRCLE ( {n} , {n} ) , {n} , {n} , {n}", []),
    ("hellipse_nc", "HCIRCLE ( {n} , {n} ) , {n} , , {n}", []),
    ("harc", "HCIRCLE ( {n} , {n} ) , {n} , {n} , {n} , {n} , {n}", []),
    ("harc_nc", "HCIRCLE ( {n} , {n} ) , {n} , , {n} , {n} , {n}", []),
    ("hline", "HLINE ( {n} , {n} ) - ( {n} , {n} ) , PSET", []),
    ("hline_b", "HLINE ( {n} , {n} ) - ( {n} , {n} ) , PRESET , B", []),
    ("hline_bf", "HLINE ( {n} , {n} ) - ( {n} , {n} ) , PSET , BF", []),
    ("hline_rel", "HLINE - ( {n} , {n} ) , PSET", []),
    ("hline_rel_bf", "HLINE - ( {n} , {n} ) , PRESET , BF", []),
    ("hset", "HSET ( {n} , {n} )", []),
    ("hset3", "HSET ( {n} , {n} , {n} )", []),
    ("hreset", "HRESET ( {n} , {n} )", []),
    ("hpaint", "HPAINT ( {n} , {n} )", []),
    ("hpaint1", "HPAINT ( {n} , {n} ) , {n}", []),
    ("hpaint2", "HPAINT ( {n} , {n} ) , {n} , {n}", []),
    ("hprint_s", "HPRINT ( {n} , {n} ) , {s}", []),
    ("hprint_n", "HPRINT ( {n} , {n} ) , {n}", []),
    ("hdraw", "HDRAW {s}", []),
    ("play", "PLAY {s}", []),
    ("hbuff", "HBUFF {n} , {n}", []),
    ("hget", "HGET ( {n} , {n} ) - ( {n} , {n} ) , {n}", []),
    ("hput", "HPUT ( {n} , {n} ) - ( {n} , {n} ) , {n} , PSET", []),
    ("hput_or", "HPUT ( {n} , {n} ) - ( {n} , {n} ) , {n} , OR", []),
    ("fn_button", "Z = BUTTON( {n} )", []),
    ("fn_joystk", "Z = JOYSTK( {n} ) + 1", []),
    ("fn_point", "Z = POINT( {n} , {n} ) + 1", []),
    ("fn_int", "Z = INT( {n} ) + 1", []),
    ("fn_val", "Z = VAL( {s} ) + 1", []),
    ("fn_str", "Z$ = STR$( {n} ) + {s}", []),
    ("fn_hex", 'Z$ = "H" + HEX$( {n} )', []),
    ("fn_instr", "Z = INSTR( {n} , {s} , {s} ) + 1", []),
    ("fn_string", 'Z$ = STRING$( {n} , {s} ) + "!"', []),
    ("fn_left", "Z$ = LEFT$( {s} , {n} ) + RIGHT$( {s} , {n} ) + MID$( {s} , {n} , {n} )", []),
    ("fn_len", "Z = LEN( {s} ) + ASC( {s} )", []),
    ("fn_chr", "Z$ = CHR$( {n} )", []),
    ("fn_abs", "Z = ABS( {n} ) + SGN( {n} )", []),
]

# operand shapes: name -> text ; V/W numeric scalars, V$ string scalar, M( ) numeric array, N$( ) string array
NUM_SHAPES = [
    ("lit", "7"),
    ("var", "V"),
    ("elem", "M( 2 )"),
    ("sum", "V + 1"),
    ("neg", "- V"),
    ("paren", "( V + W ) * 2"),
    ("builtin", "ABS( V )"),
    ("conv", "INT( V )"),
    ("conv_sum", "INT( V ) + 1"),
    ("conv_in_builtin", "ABS( INT( V ) )"),
    ("conv_in_conv", "INT( INT( V ) / 2 )"),
    ("conv_elem", "M( INT( V ) )"),
    ("dev", "JOYSTK( 0 )"),
    ("conv_neg", "INT( - V / 2 )"),
    ("neg_conv", "- INT( V )"),
    ("not_conv", "NOT INT( V )"),
    ("zero", "0"),
    ("hexb", "&H8000"),
    ("hexs", "&H7FFF"),
    ("big", "32767"),
    ("neg1", "- 1"),
    ("conv_pos", "INT( + V )"),
    ("two_conv", "INT( V ) + VAL( V$ )"),
    ("len", "LEN( V$ )"),
    ("hex", "&HFF"),
    ("val_lit", 'VAL( "12" )'),
    ("instr_lit", 'INSTR( 1 , "AB" , "B" )'),
    ("asc_lit", 'ASC( "A" )'),
]
STR_SHAPES = [
    ("lit", '"X"'),
    ("var", "V$"),
    ("elem", "N$( 2 )"),
    ("cat", 'V$ + "Y"'),
    ("builtin", "LEFT$( V$ , 1 )"),
    ("conv", "STR$( V )"),
    ("conv_in_builtin", "LEFT$( STR$( V ) , 2 )"),
    ("conv_cat", 'HEX$( V ) + "Z"',),
    ("inkey", "INKEY$"),
    ("string", 'STRING$( 2 , "Q" )'),
    ("chr", "CHR$( 65 )"),
    ("mid3", "MID$( V$ , 1 , 1 )"),
    ("mid2", "MID$( V$ , 2 )"),
    ("right", "RIGHT$( V$ , 1 )"),
    ("mid_conv", "MID$( V$ , INT( V ) , 1 )"),
]


def fill(template_body, shapes):
    """Replace the i-th slot by shapes[i] (list of texts)."""
    out = []
    it = iter(shapes)
    pos = 0
    for m in re.finditer(r"\{[ns]\}", template_body):
        out.append(template_body[pos:m.start()])
        out.append(next(it))
        pos = m.end()
    out.append(template_body[pos:])
    return "".join(out)


def slots(template_body):
    return re.findall(r"\{([ns])\}", template_body)


def template_program(body, after, prelude=True, before=()):
    lines = []
    if prelude:
        lines += ["DIM M( 12 ) , N$( 5 ) , Q( 3 , 3 )", 'V = 3 : W = 4 : V$ = "AB" : A = 1']
    lines += list(before)
    lines.append(body)
    lines += list(after)
    return program_for(lines, start=10, step=10)


def crunch(text):
    """The same program with every optional blank removed (blanks inside string literals, and everything from REM / ' / DATA
    to the end of the statement, are content and kept).  Color BASIC tokenises keywords wherever they occur, so the crunched
    spelling is the same program."""
    out = []
    for line in text.split("\n"):
        m = re.match(r"(\s*\d+)\s*(.*)$", line)
        if not m:
            out.append(line)
            continue
        num, body = m.groups()
        res = []
        i = 0
        n = len(body)
        while i < n:
            ch = body[i]
            if ch == '"':
                j = body.find('"', i + 1)
                j = n - 1 if j < 0 else j
                res.append(body[i : j + 1])
                i = j + 1
                continue
            if body.startswith("REM", i) or ch == "'":
                res.append(body[i:])
                break
            if body.startswith("DATA", i):
                j = body.find(":", i)
                j = n if j < 0 else j
                res.append(body[i:j])
                i = j
                continue
            if ch != " ":
                res.append(ch)
            i += 1
        out.append(num + " " + "".join(res))
    return "\n".join(out)
