"""Thin access layer to the code under test (the transpiler), with outcome classification."""
import importlib

from vf.core import Alarm

_c = {}


def mods():
    if not _c:
        import parsimonious.exceptions as pe
        _c["pe"] = pe
        _c["compiler"] = importlib.import_module("coco.b09.compiler")
        _c["visitors"] = importlib.import_module("coco.b09.visitors")
        _c["configs"] = importlib.import_module("coco.b09.configs")
        import pydantic
        _c["pydantic"] = pydantic
    return _c


class Result:
    __slots__ = ("kind", "text", "exc", "detail")

    def __init__(self, kind, text=None, exc=None, detail=""):
        self.kind = kind  # ok | refused:<which> | internal:<Type> | hang
        self.text = text
        self.exc = exc
        self.detail = detail

    @property
    def ok(self):
        return self.kind == "ok"

    @property
    def refused(self):
        return self.kind.startswith("refused")


def classify_exception(e):
    m = mods()
    pe = m["pe"]
    if isinstance(e, pe.VisitationError):
        # wraps an exception raised inside a visitor: internal
        orig = getattr(e, "original_class", None)
        return "internal:VisitationError(%s)" % (orig.__name__ if orig else "?")
    if isinstance(e, pe.ParseError):
        return "refused:grammar"
    if isinstance(e, m["compiler"].ParseError):
        return "refused:compiler"
    if isinstance(e, m["visitors"].LineNumberTooLargeException):
        return "refused:linenum"
    if isinstance(e, m["pydantic"].ValidationError):
        return "refused:config"
    return "internal:" + type(e).__name__


def convert(text, timeout=30, **opts):
    m = mods()
    try:
        if timeout:
            with Alarm(timeout):
                out = m["compiler"].convert(text, **opts)
        else:
            out = m["compiler"].convert(text, **opts)
        return Result("ok", text=out)
    except Alarm.Timeout:
        return Result("hang")
    except RecursionError as e:
        return Result("internal:RecursionError", exc=e, detail="recursion")
    except Exception as e:  # noqa
        return Result(classify_exception(e), exc=e, detail=str(e)[:300])
