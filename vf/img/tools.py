"""Runs the real decoders in-process through their public `start(argv)` entry points
(files in a scratch directory, or faked stdin/stdout), classifying the outcome."""
import contextlib
import importlib
import io
import os
import sys

from vf.core import Alarm

TOOLS = {
    "hrs": ("coco.hrstoppm", ".hrs", ".ppm"),
    "pix": ("coco.pixtopgm", ".pix", ".pgm"),
    "max": ("coco.maxtoppm", ".max", ".ppm"),
    "mge": ("coco.mgetoppm", ".mge", ".ppm"),
    "rat": ("coco.rattoppm", ".rat", ".ppm"),
    "cm3": ("coco.cm3toppm", ".cm3", ".ppm"),
    "vef": ("coco.veftopng", ".vef", ".png"),
}
STDIN_OK = {"hrs", "max", "mge", "rat", "cm3"}
STDOUT_OK = {"hrs", "pix", "max", "mge", "rat", "cm3"}

_mods = {}


def mod(tool):
    if tool not in _mods:
        _mods[tool] = importlib.import_module(TOOLS[tool][0])
    return _mods[tool]


class KeepBytesIO(io.BytesIO):
    name = "<stdio>"

    def close(self):
        self.final = self.getvalue()
        super().close()


class PipeBytesIO(KeepBytesIO):
    """standard input as a pipe delivers it: readable, not seekable"""

    def seekable(self):
        return False

    def seek(self, *a):
        raise io.UnsupportedOperation("underlying stream is not seekable")

    def tell(self):
        raise io.UnsupportedOperation("underlying stream is not seekable")


class FakeStd:
    def __init__(self, buf):
        self.buffer = buf

    def write(self, s):
        return len(s)

    def flush(self):
        pass


class Outcome:
    __slots__ = ("status", "out", "detail")

    def __init__(self, status, out, detail=""):
        self.status = status  # ok | exit:<code> | exc:<Type> | hang
        self.out = out  # bytes of the produced file/stream or None when absent
        self.detail = detail

    @property
    def reported(self):
        return self.status != "ok"

    def key(self):
        return (self.status, self.out)


_counter = [0]


def run_tool(tool, data, opts=(), scratch=None, use_stdin=False, use_stdout=False, timeout=30):
    """Run one decoder on `data` (bytes). Returns Outcome."""
    m = mod(tool)
    _counter[0] += 1
    base = os.path.join(scratch, f"t{os.getpid()}_{_counter[0]}")
    inp = base + TOOLS[tool][1]
    outp = base + TOOLS[tool][2]
    argv = list(opts)
    fake_in = fake_out = None
    if use_stdin:
        fake_in = PipeBytesIO(data)
    else:
        with open(inp, "wb") as f:
            f.write(data)
        argv.append(inp)
    if use_stdout:
        fake_out = KeepBytesIO()
    else:
        argv.append(outp)
    old_in, old_out, old_err = sys.stdin, sys.stdout, sys.stderr
    status = "ok"
    detail = ""
    try:
        sys.stdin = FakeStd(fake_in if fake_in is not None else KeepBytesIO(b""))
        sys.stdout = FakeStd(fake_out if fake_out is not None else KeepBytesIO())
        sys.stderr = io.StringIO()
        try:
            with Alarm(timeout):
                m.start(argv)
        except SystemExit as e:
            code = e.code
            if code not in (0, None):
                status = "exit:%s" % (code if isinstance(code, int) else "msg")
                detail = str(code)
        except Alarm.Timeout:
            status = "hang"
        except BaseException as e:  # noqa
            status = "exc:" + type(e).__name__
            detail = str(e)[:200]
    finally:
        sys.stdin, sys.stdout, sys.stderr = old_in, old_out, old_err
    out = None
    if use_stdout:
        out = getattr(fake_out, "final", None)
        if out is None:
            try:
                out = fake_out.getvalue()
            except ValueError:
                out = None
    else:
        if os.path.exists(outp):
            with open(outp, "rb") as f:
                out = f.read()
            os.remove(outp)
    if not use_stdin and os.path.exists(inp):
        os.remove(inp)
    return Outcome(status, out, detail)
