"""Shared image material: palettes, bodies, judging of tool outcomes."""
from vf.img import formats as F


def palette(k, step=5):
    """16 distinct 6-bit codes; over k = 0..63 every slot sees every code."""
    return [(i * step + k) % 64 for i in range(16)]


def body_lin(n, a, c):
    return bytes((a * i + c) & 255 for i in range(n))


def body_onehot(n, pos, val=0xA5, bg=0):
    b = bytearray([bg]) * n
    b[pos] = val
    return bytes(b)


def classify_pnm(out, exp_w, exp_h, exp_ch):
    """Returns (symptom or None, detail). Complete image = header dims as expected and
    payload == w*h*ch."""
    try:
        magic, w, h, ch, payload = F.parse_pnm(out)
    except F.BadImage as e:
        return "unparsable-output", str(e)
    if ch != exp_ch:
        return "wrong-image-kind", f"{magic}"
    if (w, h) != (exp_w, exp_h):
        return "header-dims-wrong", f"header {w}x{h}, expected {exp_w}x{exp_h}"
    if len(payload) < w * h * ch:
        return "header-payload-mismatch", f"short: payload {len(payload)} < {w}*{h}*{ch}={w*h*ch}"
    if len(payload) > w * h * ch:
        return "header-payload-mismatch", f"long: payload {len(payload)} > {w}*{h}*{ch}={w*h*ch}"
    return None, ""


def self_consistent_pnm(out):
    """For C19: the file must be complete w.r.t. its own header."""
    try:
        magic, w, h, ch, payload = F.parse_pnm(out)
    except F.BadImage as e:
        return "unparsable-output", str(e)
    if len(payload) < w * h * ch:
        return "success-with-short-payload", f"payload {len(payload)} < {w}x{h}x{ch}"
    if len(payload) > w * h * ch:
        return "success-with-long-payload", f"payload {len(payload)} > {w}x{h}x{ch}"
    return None, ""


def first_diff(a, b):
    n = min(len(a), len(b))
    for i in range(n):
        if a[i] != b[i]:
            return i
    return n if len(a) != len(b) else -1
