"""Reference side of the image checks: colour model, independent PNM / PNG readers,
reference file writers (pixel array + palette -> file bytes) and nondeterministic
reference encoders (driven by a Chooser) for MGE-RLE, RAT, CM3 and squashed VEF.

Nothing here imports coco.  Layouts are written from the format descriptions in the
decoders' headers/README (the trusted base is my reading of those layouts).
"""
import struct
import zlib


def rgb(c):
    """CoCo 3 six-bit colour code RGBRGB (high bits 5,4,3; low bits 2,1,0)."""
    b = [(c >> i) & 1 for i in range(6)]
    return ((b[5] * 2 + b[2]) * 85, (b[4] * 2 + b[1]) * 85, (b[3] * 2 + b[0]) * 85)


# ---------------------------------------------------------------------------- readers


class BadImage(Exception):
    pass


def parse_pnm(data):
    """Strict reader for binary P5/P6 with maxval 255 as the tools write them.
    Returns (magic, width, height, channels, payload bytes). Raises BadImage when the
    header is malformed; payload length is NOT checked here (the caller classifies)."""
    if data is None:
        raise BadImage("no file")
    if data[:2] not in (b"P5", b"P6"):
        raise BadImage("bad magic %r" % data[:2])
    pos = 2
    vals = []
    n = len(data)
    while len(vals) < 3:
        while pos < n and data[pos : pos + 1].isspace():
            pos += 1
        if pos < n and data[pos : pos + 1] == b"#":
            while pos < n and data[pos] != 10:
                pos += 1
            continue
        st = pos
        while pos < n and data[pos : pos + 1].isdigit():
            pos += 1
        if st == pos:
            raise BadImage("header field missing")
        vals.append(int(data[st:pos]))
    if pos >= n and not (vals[0] * vals[1] == 0):
        raise BadImage("no separator after maxval")
    pos += 1  # single whitespace
    w, h, mx = vals
    if mx != 255:
        raise BadImage("maxval %d" % mx)
    ch = 3 if data[:2] == b"P6" else 1
    return data[:2].decode(), w, h, ch, data[pos:]


def pnm_pixels(data):
    magic, w, h, ch, payload = parse_pnm(data)
    if len(payload) != w * h * ch:
        raise BadImage("payload %d != %d*%d*%d" % (len(payload), w, h, ch))
    return w, h, ch, payload


def _paeth(a, b, c):
    p = a + b - c
    pa, pb, pc = abs(p - a), abs(p - b), abs(p - c)
    if pa <= pb and pa <= pc:
        return a
    if pb <= pc:
        return b
    return c


def parse_png(data):
    """Minimal independent PNG reader (palette / grey / RGB, depth 1-8, no interlace).
    Returns dict(width, height, palette (list of rgb) or None, indices (list of rows of
    ints) , rgb rows)."""
    if data is None:
        raise BadImage("no file")
    if data[:8] != b"\x89PNG\r\n\x1a\n":
        raise BadImage("bad png signature")
    pos = 8
    ihdr = None
    plte = None
    idat = b""
    seen_end = False
    while pos < len(data):
        if pos + 8 > len(data):
            raise BadImage("truncated chunk header")
        (ln,) = struct.unpack(">I", data[pos : pos + 4])
        typ = data[pos + 4 : pos + 8]
        body = data[pos + 8 : pos + 8 + ln]
        if len(body) != ln or pos + 12 + ln > len(data):
            raise BadImage("truncated chunk")
        (crc,) = struct.unpack(">I", data[pos + 8 + ln : pos + 12 + ln])
        if zlib.crc32(typ + body) & 0xFFFFFFFF != crc:
            raise BadImage("bad crc")
        pos += 12 + ln
        if typ == b"IHDR":
            ihdr = struct.unpack(">IIBBBBB", body)
        elif typ == b"PLTE":
            plte = [tuple(body[i : i + 3]) for i in range(0, len(body), 3)]
        elif typ == b"IDAT":
            idat += body
        elif typ == b"IEND":
            seen_end = True
            break
    if not seen_end or ihdr is None:
        raise BadImage("missing IHDR/IEND")
    w, h, depth, ctype, comp, flt, inter = ihdr
    if inter != 0 or comp != 0 or flt != 0:
        raise BadImage("unsupported png options")
    chans = {0: 1, 2: 3, 3: 1, 4: 2, 6: 4}[ctype]
    try:
        raw = zlib.decompress(idat)
    except zlib.error as e:
        raise BadImage("zlib: %s" % e)
    bpp = max(1, chans * depth // 8)
    stride = (w * chans * depth + 7) // 8
    if len(raw) != (stride + 1) * h:
        raise BadImage("idat size %d != %d" % (len(raw), (stride + 1) * h))
    rows = []
    prev = bytearray(stride)
    p = 0
    for _ in range(h):
        ft = raw[p]
        line = bytearray(raw[p + 1 : p + 1 + stride])
        p += 1 + stride
        if ft == 1:
            for i in range(bpp, stride):
                line[i] = (line[i] + line[i - bpp]) & 255
        elif ft == 2:
            for i in range(stride):
                line[i] = (line[i] + prev[i]) & 255
        elif ft == 3:
            for i in range(stride):
                a = line[i - bpp] if i >= bpp else 0
                line[i] = (line[i] + ((a + prev[i]) >> 1)) & 255
        elif ft == 4:
            for i in range(stride):
                a = line[i - bpp] if i >= bpp else 0
                c = prev[i - bpp] if i >= bpp else 0
                line[i] = (line[i] + _paeth(a, prev[i], c)) & 255
        elif ft != 0:
            raise BadImage("bad filter")
        rows.append(line)
        prev = line
    out_rows = []
    for line in rows:
        if depth == 8:
            vals = list(line)
        else:
            vals = []
            per = 8 // depth
            mask = (1 << depth) - 1
            for b in line:
                for k in range(per):
                    vals.append((b >> (8 - depth * (k + 1))) & mask)
            vals = vals[: w * chans]
        out_rows.append(vals)
    res = {"width": w, "height": h, "ctype": ctype, "depth": depth, "palette": plte, "rows": out_rows}
    if ctype == 3:
        if plte is None:
            raise BadImage("palette image without PLTE")
        for r in out_rows:
            for v in r:
                if v >= len(plte):
                    raise BadImage("pixel index %d outside palette of %d" % (v, len(plte)))
        res["rgb"] = [[plte[v] for v in r] for r in out_rows]
    elif ctype == 2:
        res["rgb"] = [[tuple(r[i : i + 3]) for i in range(0, len(r), 3)] for r in out_rows]
    elif ctype == 0:
        res["rgb"] = [[(v, v, v) for v in r] for r in out_rows]
    else:
        raise BadImage("unsupported colour type")
    return res


# ---------------------------------------------------------------------------- writers
# An "image" for the 16-colour byte-packed formats is a list of bytes (two 4-bit pixels
# per byte, high nibble first) plus a 16-entry palette of 6-bit codes.


def expected_ppm_from_bytes(body, palette, width, height, low_mask=15):
    out = bytearray(b"P6\n%d %d\n255\n" % (width, height))
    for b in body:
        out += bytes(rgb(palette[b >> 4]))
        out += bytes(rgb(palette[b & low_mask]))
    return bytes(out)


def hrs_file(palette, body, skip=b""):
    return bytes(skip) + bytes(palette) + bytes(body)


MGE_C2R = None  # never copied from the tool; see c16 for how the composite table is judged


def mge_header(palette, rgb_flag=0, raw=True, title=b"TITLE", cycles=0, pal_anim=0):
    t = bytes(title)[:30]
    t = t + b"\0" * (30 - len(t))
    return bytes([0]) + bytes(palette) + bytes([rgb_flag, 1 if raw else 0]) + t + bytes([cycles, pal_anim])


def mge_raw_file(palette, body, rgb_flag=0, title=b"TITLE"):
    assert len(body) == 32000
    return mge_header(palette, rgb_flag, True, title) + bytes(body)


def runs_of(body):
    """maximal runs [(value, length)]"""
    runs = []
    for b in body:
        if runs and runs[-1][0] == b:
            runs[-1][1] += 1
        else:
            runs.append([b, 1])
    return [(v, n) for v, n in runs]


def split_options(n, maxlen, row_left=None):
    """Alternative first-piece lengths for a run of n (default first = greedy max)."""
    opts = [min(n, maxlen)]
    for c in (1, 2, n // 2, min(n, maxlen) - 1, row_left, (row_left or 0) + 1):
        if c and 0 < c < n + 0 and c <= maxlen and c not in opts:
            opts.append(c)
    return opts


def opt(ch, options, label, is_open=True):
    """Offer a choice only at 'open' points; elsewhere take the default silently."""
    if not is_open or len(options) == 1:
        return options[0]
    return ch.choose(options, label)


def run_open(run_index, n_runs, piece_index, left, maxlen):
    """Choice points are opened for the first/last runs of a picture and for the first two and the last piece of a run."""
    return (run_index < 24 or run_index >= n_runs - 4) and (piece_index < 2 or left <= maxlen)


def mge_rle_encode(body, ch, row_bytes=160):
    """Nondeterministic MGE run-length encoder: (count,value)* 0."""
    out = bytearray()
    pos = 0
    runs = runs_of(body)
    for ri, (v, n) in enumerate(runs):
        left = n
        pi = 0
        while left:
            row_left = row_bytes - (pos % row_bytes)
            c = opt(ch, split_options(left, 255, row_left), "mge-run", run_open(ri, len(runs), pi, left, 255))
            out += bytes([c, v])
            left -= c
            pos += c
            pi += 1
    out.append(0)
    return bytes(out)


def mge_rle_file(palette, body, ch, rgb_flag=0, title=b"TITLE"):
    return mge_header(palette, rgb_flag, False, title) + mge_rle_encode(body, ch)


def rat_encode(body, ch, escape):
    out = bytearray()
    pos = 0
    runs = runs_of(body)
    for ri, (v, n) in enumerate(runs):
        left = n
        pi = -1
        while left:
            pi += 1
            is_open = run_open(ri, len(runs), pi, left, 255)
            row_left = 160 - (pos % 160)
            if v == escape:
                # a literal equal to the escape byte must be escape-coded
                c = opt(ch, split_options(left, 255, row_left), "rat-esc-run", is_open)
                out += bytes([escape, c, v])
            else:
                if left == 1:
                    form = opt(ch, ["lit", "run1"], "rat-single", is_open)
                    c = 1
                    out += bytes([v]) if form == "lit" else bytes([escape, 1, v])
                elif left <= 3:
                    form = opt(ch, ["run", "lits", "lit1"], "rat-short", is_open)
                    if form == "run":
                        c = left
                        out += bytes([escape, c, v])
                    elif form == "lits":
                        c = left
                        out += bytes([v]) * c
                    else:
                        c = 1
                        out += bytes([v])
                else:
                    c = opt(ch, split_options(left, 255, row_left), "rat-run", is_open)
                    if c == 1:
                        out += bytes([v])
                    else:
                        out += bytes([escape, c, v])
            left -= c
            pos += c
    return bytes(out)


def rat_file(palette, body, ch, escape=None, bcolor=0):
    assert len(body) == 199 * 160
    present = set(body)
    absent = [x for x in range(255, -1, -1) if x not in present]
    if escape is None:
        opts = []
        if absent:
            opts.append(absent[0])
        # a value that occurs in the image (forces escaped literals)
        occ = sorted(present)
        opts.append(occ[len(occ) // 2])
        escape = ch.choose(opts, "rat-escape")
    return bytes([escape, 1, bcolor]) + bytes(palette) + rat_encode(body, ch, escape)


def cm3_header(palette, two_pages, patterns, anirat=0, cycrat=0, cyc=bytes(8), aniflg=0, cycflg=0):
    pictyp = (0x80 if two_pages else 0) | (0 if patterns else 1)
    h = bytes([pictyp]) + bytes(palette) + bytes([anirat, cycrat]) + bytes(cyc) + bytes([aniflg, cycflg])
    if patterns:
        h += bytes((i * 7 + 3) & 255 for i in range(243))
    return h


def cm3_raw_file(palette, body, two_pages=False, patterns=False):
    rows = 384 if two_pages else 192
    assert len(body) == rows * 160
    out = bytearray(cm3_header(palette, two_pages, patterns))
    for page in range(2 if two_pages else 1):
        out.append(192)
        for r in range(192):
            row = body[(page * 192 + r) * 160 : (page * 192 + r + 1) * 160]
            out.append(0x80)
            out += bytes(row)
    return bytes(out)


CM3_OPEN_COLS = (0, 1, 2, 79, 80, 158, 159)


def cm3_encode_line(row, prev, ch, allow_raw=True, line_open=True):
    """One CM3 line. prev = previous decoded line (160 bytes, zeros before the first)."""
    if allow_raw and opt(ch, ["coded", "raw"], "cm3-line-form", line_open) == "raw":
        ctl = ch.choose([0x80, 0xFF, 0x81], "cm3-raw-ctl")
        return bytes([ctl]) + bytes(row)
    bits1 = []
    bits2 = []
    lits = bytearray()
    cur = list(prev)
    for x in range(160):
        a = row[x]
        left = cur[(x - 1) % 160]
        up = cur[x]
        opts = []
        if a == left:
            opts.append("left")
        if a == up:
            opts.append("up")
        opts.append("lit")
        how = opt(ch, opts, "cm3-byte", line_open and x in CM3_OPEN_COLS)
        if how == "left":
            bits1.append(0)
        else:
            bits1.append(1)
            if how == "up":
                bits2.append(0)
            else:
                bits2.append(1)
                lits.append(a)
        cur[x] = a
    b1 = bytearray(20)
    for i, bit in enumerate(bits1):
        if bit:
            b1[i // 8] |= 1 << (7 - i % 8)
    n2 = (len(bits2) + 7) // 8
    b2 = bytearray(n2)
    for i, bit in enumerate(bits2):
        if bit:
            b2[i // 8] |= 1 << (7 - i % 8)
    if n2 >= 128:
        raise ValueError("coded line needs >=128 selector bytes")
    return bytes([n2]) + bytes(b1) + bytes(b2) + bytes(lits)


CM3_OPEN_LINES = (0, 1, 2, 3, 96, 190, 191, 192, 193, 194, 382, 383)


def cm3_coded_file(palette, body, ch, two_pages=False, patterns=False):
    rows = 384 if two_pages else 192
    assert len(body) == rows * 160
    out = bytearray(cm3_header(palette, two_pages, patterns))
    prev = [0] * 160
    for page in range(2 if two_pages else 1):
        out.append(192)
        for r in range(192):
            row = body[(page * 192 + r) * 160 : (page * 192 + r + 1) * 160]
            out += cm3_encode_line(row, prev, ch, line_open=(page * 192 + r) in CM3_OPEN_LINES)
            prev = list(row)
    return bytes(out)


VEF_TYPES = {
    0: dict(width=320, height=200, colors=16, rec=80, rowbytes=160),
    1: dict(width=640, height=200, colors=4, rec=80, rowbytes=160),
    3: dict(width=320, height=200, colors=4, rec=40, rowbytes=80),
}


def vef_raw_file(palette, body, vtype):
    t = VEF_TYPES[vtype]
    assert len(body) == t["rec"] * 400
    return bytes([0, vtype]) + bytes(palette) + bytes(body)


VEF_OPEN_RECORDS = (0, 1, 2, 3, 199, 200, 398, 399)


def vef_squash_record(rec, ch, pad=True, rec_open=True):
    out = bytearray()
    runs = runs_of(rec)
    i = 0
    # group: repeat packets for runs, literal packets otherwise
    pending = bytearray()

    def flush():
        nonlocal pending
        while pending:
            c = opt(ch, split_options(len(pending), 128), "vef-lit-len", rec_open)
            out.append(c)
            out.extend(pending[:c])
            pending = pending[c:]

    for v, n in runs:
        left = n
        while left:
            if left == 1:
                form = opt(ch, ["lit", "rep"], "vef-single", rec_open)
            elif left <= 2:
                form = opt(ch, ["rep", "lit"], "vef-short", rec_open)
            else:
                form = "rep"
            if form == "lit":
                pending.append(v)
                left -= 1
                continue
            flush()
            c = opt(ch, split_options(left, 127), "vef-rep-len", rec_open)
            out += bytes([128 + c, v])
            left -= c
    flush()
    if pad and opt(ch, [False, True], "vef-pad", rec_open):
        out += bytes([128 + 3, 0xAA])  # data beyond orig_len must be ignored
    if len(out) > 255:
        raise ValueError("record too long")
    return bytes([len(out)]) + bytes(out)


def vef_squashed_file(palette, body, vtype, ch):
    t = VEF_TYPES[vtype]
    out = bytearray(bytes([128, vtype]) + bytes(palette))
    for r in range(400):
        out += vef_squash_record(body[r * t["rec"] : (r + 1) * t["rec"]], ch, rec_open=r in VEF_OPEN_RECORDS)
    return bytes(out)


def vef_expected_rgb(palette, body, vtype):
    """rows of rgb tuples the PNG must contain (640-wide images are line doubled)."""
    t = VEF_TYPES[vtype]
    rows = []
    rb = t["rowbytes"]
    for r in range(200):
        line = []
        for b in body[r * rb : (r + 1) * rb]:
            if t["colors"] == 16:
                idx = [b >> 4, b & 15]
            else:
                idx = [b >> 6, (b >> 4) & 3, (b >> 2) & 3, b & 3]
            line.extend(rgb(palette[i]) for i in idx)
        rows.append(line)
        if t["width"] == 640:
            rows.append(line)
    return rows


# MAX / ART ---------------------------------------------------------------------------

BR2 = [(0, 0, 0), (255, 85, 0), (0, 170, 255), (255, 255, 255)]
BR3 = [(0, 0, 0), (255, 0, 0), (0, 0, 255), (255, 255, 255)]
SEMIG = [(0, 0, 0), (0, 255, 0), (255, 255, 0), (0, 0, 255), (255, 0, 0), (255, 255, 255), (0, 211, 170), (204, 0, 255), (255, 128, 0)]
MAX_MODES = ["bw", "br", "rb", "br2", "rb2", "br3", "rb3", "s10", "s11"]
MAX_FLAGS = {"bw": [], "br": ["-br"], "rb": ["-rb"], "br2": ["-br2"], "rb2": ["-rb2"], "br3": ["-br3"], "rb3": ["-rb3"], "s10": ["-s10"], "s11": ["-s11"]}


def _clip(v):
    return 255 if v > 255 else (0 if v < 0 else v)


def max_row_pixels(rowbytes, mode):
    """The colour each pixel mode assigns (option documentation + artifact formula)."""
    px = []
    if mode == "bw":
        for v in rowbytes:
            for k in range(8):
                px.append((255, 255, 255) if (v >> (7 - k)) & 1 else (0, 0, 0))
    elif mode in ("br", "rb"):
        x = -100 if mode == "br" else 100
        oy = r2 = g2 = b2 = 0
        for v in rowbytes:
            # the artifact filter restarts its phase on every byte (x is re-set per byte)
            x = -100 if mode == "br" else 100
            for k in range(8):
                ny = ((v >> (7 - k)) & 1) * 255
                y = (oy + ny + (ny >> 2)) >> 1
                i = (x * (y - oy)) >> 7
                r = _clip(int(y + 0.9563 * i))
                g = _clip(int(y - 0.2721 * i))
                b = _clip(int(y - 1.1070 * i))
                px.append(((r + r2) >> 1, (g + g2) >> 1, (b + b2) >> 1))
                oy = ny
                x = -x
                r2, g2, b2 = r, g, b
    else:
        for v in rowbytes:
            for k in range(4):
                hi = (v >> (7 - 2 * k)) & 1
                lo = (v >> (6 - 2 * k)) & 1
                if mode == "br2":
                    c = BR2[hi * 2 + lo]
                elif mode == "rb2":
                    c = BR2[hi + lo * 2]
                elif mode == "br3":
                    c = BR3[hi * 2 + lo]
                elif mode == "rb3":
                    c = BR3[hi + lo * 2]
                elif mode == "s10":
                    c = SEMIG[1 + hi + lo * 2]
                else:
                    c = SEMIG[5 + hi + lo * 2]
                px.append(c)
                px.append(c)
    return px


def max_file(body, size_field=None, first=0, tail=(0, 0)):
    size = len(body) if size_field is None else size_field
    return bytes([first, (size >> 8) & 255, size & 255, tail[0], tail[1]]) + bytes(body)


def newsroom_file(cols_bytes, rows, body):
    return bytes([cols_bytes, rows]) + bytes(body)


def pix_expected(data):
    """PIX: square sideways 4-bit greyscale; file of side*side/2 bytes."""
    sz = len(data)
    side = int((sz * 2) ** 0.5)
    while side * side > sz * 2:
        side -= 1
    while (side + 1) * (side + 1) <= sz * 2:
        side += 1
    if side * side != sz * 2:
        return None
    img = bytearray(side * side)
    i = 0
    for y in range(side):
        for x in range(side // 2):
            v = data[i]
            i += 1
            img[(2 * x) * side + y] = 255 - (v >> 4) * 17
            img[(2 * x + 1) * side + y] = 255 - (v & 15) * 17
    return b"P5\n%d %d\n255\n" % (side, side) + bytes(img)


# ------------------------------------------------------------------ input analysers
# Used only to attach *input-side* features to damaged files (known-finding patterns).


def mge_rle_analysis(data):
    """-> set of features of an MGE file with the run-length body."""
    feats = set()
    if len(data) < 51 or data[18] != 0:
        return feats
    pos, total = 51, 0
    while pos < len(data):
        c = data[pos]
        if c == 0:
            if total < 32000:
                feats.add("mge-early-terminator")
            break
        if pos + 1 >= len(data):
            break
        if total < 32000 < total + c:
            feats.add("run-crosses-image-end")
        if total >= 32000:
            feats.add("run-after-image-end")
        total += c
        pos += 2
    return feats


def rat_analysis(data):
    feats = set()
    if len(data) < 19:
        return feats
    esc = data[0]
    pos, total = 19, 0
    n = 199 * 160
    while pos < len(data) and total < n:
        if data[pos] != esc:
            c = 1
            pos += 1
        else:
            if pos + 2 >= len(data):
                break
            c = data[pos + 1]
            pos += 3
        if total + c > n:
            feats.add("run-crosses-image-end")
        total += c
    return feats


def cm3_analysis(data):
    feats = set()
    if len(data) < 30:
        return feats
    off = 29 + (0 if data[0] & 1 else 243)
    if off < len(data) and data[off] < 192:
        feats.add("cm3-lines<rows")
    if off < len(data) and data[off] > 192:
        feats.add("cm3-lines>rows")
    return feats


def vef_analysis(data):
    feats = set()
    if len(data) < 2:
        return feats
    t = {0: (80, 160), 1: (80, 160), 3: (40, 80), 4: (40, 80)}.get(data[1])
    if t is None:
        return feats
    rec = t[0]
    if any(b >= 64 for b in data[2:18]):
        feats.add("vef-palette-code>=64")
    if data[0] != 128:
        if len(data) - 18 != rec * 400:
            feats.add("vef-unsquashed-length-wrong")
    else:
        pos = 18
        for _ in range(400):
            if pos >= len(data):
                break
            count = data[pos]
            chunk = data[pos + 1 : pos + 1 + count]
            pos += count + 1
            got = 0
            i = 0
            while i < count and i < len(chunk):
                cb = chunk[i]
                i += 1
                if cb > 128:
                    got += cb - 128
                    i += 1
                else:
                    got += cb
                    i += cb
            if got < rec:
                feats.add("vef-squashed-record-short")
    if data[1] == 4:
        feats.add("vef-type-640x200x2")
    return feats
