"""C07 Accepted programs yield structurally well-formed BASIC09 text.

Spaces: (A) every catalogue statement in every control context x 2 option sets;
(B) every statement template x every operand shape in one slot (others default) and in
all slots; (C) ordered pairs of catalogue statements on one line and on two lines;
(D) bundled example programs x all option combinations.
Oracle: the BASIC09 structural parser (vf/b09/syntax.py) + lexical leak detectors.
"""
import itertools
import os
import re

from vf import core, tool
from vf.b09 import syntax as S
from vf.gen import catalogue as K
from vf.gen import features as FE

LEVEL = "model_checking"

LEAK = re.compile(r"<[A-Za-z_.]+ object at|<Node|<Regex|\bNone\b|\binf\b|\bnan\b|\bTrue\b(?!\s*THEN)|\bFalse\b", re.I)
LEAK_CASE = re.compile(r"<[A-Za-z_.]+ object at|<Node |<RegexNode|\bNone\b|\binf\b|\bnan\b")

FULL = {"initialize_vars": True, "filter_unused_linenum": True, "output_dependencies": True, "procname": "p", "default_str_storage": 80}


def check_text(out):
    """-> (symptom, detail) or None"""
    m = LEAK_CASE.search(out)
    if m:
        return ("internal-object-leak", f"{m.group(0)!r} in output near {out[max(0, m.start()-40):m.end()+20]!r}")
    try:
        procs = S.parse(out)
    except S.B09SyntaxError as e:
        return ("b09-syntax-error", str(e))
    # a line number labels one line of its procedure
    for p in procs:
        seen = set()
        for st in S.walk(p.body):
            if st.label is not None:
                if st.label in seen:
                    return ("b09-syntax-error", f"procedure {p.name}: line number {st.label} labels more than one line")
                seen.add(st.label)
    return None


def unbalanced_source(text):
    """FOR/NEXT of the *source* not lexically balanced -> outside the fragment."""
    depth = 0
    for _, stmts in FE.statements_of(text):
        for st in stmts:
            s = st.strip()
            # statements after THEN/ELSE
            parts = re.split(r"\bTHEN\b|\bELSE\b|THEN|ELSE", s)
            for p in parts:
                p = p.strip()
                if p.startswith("FOR"):
                    depth += 1
                elif p.startswith("NEXT"):
                    vars_ = [v for v in p[4:].split(",") if v.strip()]
                    depth -= max(1, len(vars_))
                    if depth < 0:
                        return True
    return depth != 0


def gen(run):
    quick = run.tier == "quick"
    cases = []
    # A+B: catalogue x contexts, templates x operand shapes, templates x key shapes x contexts
    from vf.gen import spaces
    for text, origin in spaces.all_programs(run):
        for opts in ({}, FULL):
            cases.append({"text": text, "opts": opts, "origin": origin})
    # F: every lexically balanced FOR/NEXT skeleton (all NEXT spellings, nesting <= 3), one statement per line and on one line
    structs = spaces.balanced_for_structures(6 if quick else 7)
    for st in structs:
        for text, lay in spaces.layouts_of(st):
            cases.append({"text": text, "opts": {}, "origin": f"for-structure:{lay}"})
    run.states += len(structs)
    run.transitions += len(structs)
    # G: characters that Python's str.splitlines() treats as line ends but BASIC does not, inside literals / remarks / DATA
    n = 0
    for ch in "\x0b\x0c\x1c\x1d\x1e\x85\x00\t":
        for tpl in ('PRINT "A{}B" ; 1', "REM A{}B", "' A{}B", "DATA A{}B , 2", 'DATA "A{}B"', 'A$ = "A{}B', 'INPUT "A{}B" ; C$', 'HPRINT ( 1 , 2 ) , "A{}B"', 'PLAY "A{}B"'):
            text = K.program_for([tpl.replace("{}", ch), 'SOUND 1 , 1'])
            for opts in ({}, FULL, {"output_dependencies": True, "procname": "q"}, {"output_dependencies": True, "procname": "q", "skip_procedure_headers": True}):
                cases.append({"text": text, "opts": opts, "origin": f"ctl-char:{ord(ch):02x}"})
                n += 1
    # H: PRINT / PRINT@ lists beginning or ending with separators
    for body in (",A$", ";A$", ",,A$", ";1", ",", ";", "A$,", "A$;", ",A$,", "@5,;A$", "@5,,A$", "@5,A$;", "TAB(3);A$", ";TAB(3)"):
        cases.append({"text": f'10 A$="X"\n20 PRINT {body}\n', "opts": {}, "origin": "print-separators"})
        n += 1
    run.states += n
    run.transitions += n
    # C: ordered pairs
    cat = K.CATALOGUE if not quick else [c for c in K.CATALOGUE]
    n = 0
    for (n1, s1, _), (n2, s2, _) in itertools.product(cat, cat):
        if s1.startswith(("REM", "'", "DATA")):
            line_variant = None
        else:
            line_variant = f"{s1} : {s2}"
        if line_variant:
            cases.append({"text": K.program_for([line_variant]), "opts": {}, "origin": f"pair1:{n1}+{n2}"})
            n += 1
        if not quick or (hash((n1, n2)) % 4 == 0):
            pass
        cases.append({"text": K.program_for([s1, s2]), "opts": FULL if not quick else {}, "origin": f"pair2:{n1}+{n2}"})
        n += 1
    run.states += n + len(cat)
    run.transitions += n
    # E: every 1- and 2-character variable name in the four kinds
    import string
    names = list(string.ascii_uppercase) + [a + b for a in string.ascii_uppercase for b in string.ascii_uppercase + string.digits]
    for d in core.cube(run, [("name", names), ("kind", ["{}", "{}$", "{}( 1 )", "{}$( 1 )"])]):
        v = d["kind"].format(d["name"])
        rhs = '"S"' if "$" in v else "1"
        cases.append({"text": f"10 {v} = {rhs}\n20 PRINT {v}\n", "opts": {"initialize_vars": True}, "origin": f"name:{v}"})
    # D: examples
    exdirs = [os.path.join(core.REPO, "examples", "decb"), os.path.join(core.REPO, "examples", "other-decb-examples-to-try")]
    keys = ["filter_unused_linenum", "initialize_vars", "default_width32", "output_dependencies"]
    for dd in exdirs:
        if not os.path.isdir(dd):
            continue
        for fn in sorted(os.listdir(dd)):
            if not fn.endswith(".bas"):
                continue
            text = open(os.path.join(dd, fn), encoding="latin-1").read()
            for bits in itertools.product([False, True], repeat=4):
                for sz in (32, 100):
                    o = dict(zip(keys, bits))
                    o["default_str_storage"] = sz
                    o["procname"] = fn[:-4]
                    cases.append({"text": text, "opts": o, "origin": f"example:{fn}"})
            run.states += 33
            run.transitions += 32
    return cases


def work(chunk):
    res = []
    for c in chunk:
        r = tool.convert(c["text"], **c["opts"])
        if not r.ok:
            res.append((r.kind, None))
            continue
        res.append(("ok", check_text(r.text)))
    return res


def features(c):
    f = FE.source_features(c["text"])
    if unbalanced_source(c["text"]):
        f.add("source-for-next-unbalanced")
    if c["origin"].startswith("example:"):
        f.add(c["origin"])
    if re.search(r"\d *E *[+]? *\d{3}", c["text"]):
        f.add("literal:overflow")
    return f


def run(run):
    run.rule = ("programs = catalogue x contexts, templates x operand shapes (one slot deviating, and all slots), ordered statement pairs on one and two lines, "
                "bundled examples x 32 option sets, balanced FOR/NEXT skeletons of <= 6 (thorough 7) statements; distinct = distinct (text, options) accepted by the tool; non-trivial = accepted (output parsed)")
    run.assumptions = ["BASIC09 statement grammar as modelled in vf/b09/syntax.py (reserved words bound to the BASIC09 binary's token table; ecb.b09 must parse)",
                       "programs whose *source* has unbalanced FOR/NEXT are outside the fragment (the tool transliterates FOR and NEXT one to one)"]
    cases = gen(run)
    i = 0
    keys = set()
    for res in core.pmap(work, cases, chunk=150):
        for kind, verdict in res:
            c = cases[i]
            i += 1
            run.evaluations += 1
            run.count("outcome:" + kind.split(":")[0])
            if kind != "ok":
                if kind.startswith("internal") or kind == "hang":
                    run.count("internal-exceptions (reported by C15, not judged here)")
                continue
            keys.add(hash((c["text"], str(sorted(c["opts"].items())))))
            if i % 7001 == 1:
                run.sample({"text": c["text"], "opts": c["opts"], "origin": c["origin"], "verdict": "well-formed" if not verdict else verdict[0]})
            if verdict and "labels more than one line" in verdict[1]:
                nums = re.findall(r"(?m)^\s*(\d+)", c["text"])
                if len(nums) != len(set(nums)):
                    run.count("outside-fragment:source-repeats-a-line-number")
                    continue
            if verdict:
                f = features(c)
                if "source-for-next-unbalanced" in f and "NEXT" in verdict[1] or ("source-for-next-unbalanced" in f and "unmatched" in verdict[1]):
                    run.count("outside-fragment:source-for-next-unbalanced")
                    continue
                run.violation(verdict[0], f, {"text": c["text"], "opts": c["opts"], "origin": c["origin"]}, f"{c['origin']}: {verdict[1]}\nsource: {c['text']!r}")
    run.distinct_n = len(keys)


def replay(case):
    r = tool.convert(case["text"], **case["opts"])
    if not r.ok:
        return {"outcome": r.kind, "violations": []}
    v = check_text(r.text)
    return {"outcome": "ok", "violations": [list(v)] if v else [], "output": r.text}
