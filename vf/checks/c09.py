"""C09 Distinct source variables stay distinct; the same variable stays the same.

Space: every name [A-Z][A-Z0-9]{0,2} (34 658 names; thorough adds length 4 over a reduced
tail alphabet) in all four kinds (scalar, string, array, string array) in every syntactic
position (DIM, assignment target, expression, FOR/NEXT, READ, INPUT, VARPTR, subscript,
PRINT item, device operand, pre-initialisation prologue), one program per name.
Oracle: per source line the multiset of user identifiers in the parsed output must be
exactly name[:2] + suffix (arr_ prefix for arrays); user identifiers never coincide
(case-insensitively) with generated ones.
"""
import itertools
import re
import string
from collections import Counter

from vf import core, tool
from vf.b09 import syntax as S

LEVEL = "model_checking"

GENERATED = re.compile(r"(?i)^(tmp_\d+\$?|display|play|pid|erno|errnum|joy[01][xy]|display_t|play_t)$")
USER_ID = re.compile(r"^(arr_)?[A-Z][A-Z0-9]?\$?$")


def program(n):
    """(text, expected: {label: Counter of identifiers})"""
    k = n[:2]
    s, t, a, b = k, k + "$", "arr_" + k, "arr_" + k + "$"
    hx, hy = ("X2", "Y2") if k in ("X1", "Y1") else ("X1", "Y1")
    lines = [
        (10, f"DIM {n}(3),{n}$(3)", [a, b]),
        (20, f'{n}=1:{n}$="S"', [s, t]),
        (30, f'{n}(1)={n}+2:{n}$(1)={n}$+"T"', [a, s, b, t]),
        (40, f"FOR {n}=1 TO 2:NEXT {n}", [s]),  # the parser itself requires NEXT to name the FOR variable
        (50, f"READ {n},{n}$,{n}(2),{n}$(2)", [s, t, a, b]),
        (60, f'INPUT "P";{n},{n}$', [s, t]),
        (70, f"{hx}=VARPTR({n})+VARPTR({n}$)+VARPTR({n}(1))", [hx, s, t, a]),
        (80, f"{hy}({n})=1:{hy}({n}(1))=2", ["arr_" + hy, s, "arr_" + hy, a]),
        (90, f"PRINT {n};{n}$;{n}(1);{n}$(1)", [s, t, a, b]),
        (95, f"SOUND {n},{n}(1):HSET({n},{n}(2))", [s, a, s, a]),
        (96, f"{hx}=LEN({n}$)+ABS({n})+INT({n}(1))+ASC({n}$(1))", [hx, t, s, a, b]),
        (97, f"IF {n}=1 THEN {n}$={n}$(1) ELSE {n}(0)={n}", [s, t, b, a, s]),
        (99, 'DATA 1,"A",2,"B"', []),
    ]
    text = "".join(f"{ln} {body}\n" for ln, body, _ in lines)
    exp = {ln: Counter(ids) for ln, _, ids in lines}
    return text, exp


def ids_of_output(out):
    """{region label: Counter(identifier)} from the parsed output; region None = before the first label."""
    procs = S.parse(out)
    # physical line -> label region
    region_of_line = {}
    cur = None
    for i, ln in enumerate(re.split(r"\r\n|\r|\n", out), 1):
        m = re.match(r"\s*(\d+)\s", ln)
        if m:
            cur = int(m.group(1))
        region_of_line[i] = cur
    res = {}
    for p in procs:
        for st in S.walk(p.body):
            reg = region_of_line.get(st.line)
            names = []
            if st.kind in ("dim", "param"):
                for grp, typ in st.a["groups"]:
                    names += [nm for nm, dims in grp]
            for e in S.stmt_exprs(st):
                for sub in S.expr_walk(e):
                    if sub[0] == "var":
                        names.append(sub[1])
            for nm in names:
                if GENERATED.match(nm):
                    continue
                res.setdefault(reg, Counter())[nm] += 1
    return res


# reserved words of Color BASIC 1.2, Extended and Super Extended BASIC (manual word lists), the words the
# tool generates itself, and BASIC09's words: each is tried as a name, alone and as a prefix / suffix of a name
DECB_WORDS = ("FOR GO REM ELSE IF DATA PRINT ON INPUT END NEXT DIM READ RUN RESTORE RETURN STOP POKE CONT LIST CLEAR NEW CLOAD CSAVE OPEN CLOSE LLIST SET RESET CLS MOTOR SOUND AUDIO EXEC SKIPF "
              "TAB TO SUB THEN NOT STEP OFF AND OR SGN INT ABS USR RND SIN PEEK LEN STR VAL ASC CHR EOF JOYSTK LEFT RIGHT MID POINT INKEY MEM "
              "DEL EDIT TRON TROFF DEF LET LINE PCLS PSET PRESET SCREEN PCLEAR COLOR CIRCLE PAINT GET PUT DRAW PCOPY PMODE PLAY DLOAD RENUM FN USING ATN COS TAN EXP FIX LOG POS SQR HEX VARPTR INSTR "
              "TIMER PPOINT STRING WIDTH PALETTE HSCREEN LPOKE HCLS HCOLOR HPAINT HCIRCLE HLINE HGET HPUT HBUFF HPRINT ERR BRK LOCATE HSTAT HSET HRESET HDRAW CMP RGB ATTR LPEEK BUTTON HPOINT "
              "ERNO ERLIN GOTO GOSUB").split()
TOOL_WORDS = "TMP TMP1 TMP_1 DISPLAY PLAY PID ERNO ERRNUM JOY0X JOY1Y ARR ARRA ARR_A DISPLAY_T PLAY_T BASE PROCEDURE".split()


DOLLAR_FUNCTIONS = ("STR", "CHR", "LEFT", "RIGHT", "MID", "INKEY", "HEX", "STRING")


def special_names():
    words = list(DECB_WORDS) + TOOL_WORDS + [w for w in S.RESERVED if re.fullmatch(r"[A-Z][A-Z0-9]*", w)]
    try:
        from coco.b09 import grammar as G
        words += [re.sub(r"[^A-Z0-9]", "", str(k)) for k in getattr(G, "KEYWORDS", ())]
    except Exception:  # noqa
        pass
    out = []
    for w in words:
        if not re.fullmatch(r"[A-Z][A-Z0-9_]*", w):
            continue
        # a name that merely *starts* with a Color BASIC word is keyword + rest in Color BASIC too (NOTX = NOT X), so the
        # suffixed spellings are tried only for the tool's own words
        variants = (w, "X" + w, "X1" + w) if w in DECB_WORDS else (w, w + "X", w + "1", "X" + w, "X1" + w)
        for n in variants:
            if n in out or len(n) < 4 and not n.startswith(("REM",)) and n not in ("FN",):
                continue  # names of <= 3 characters are all in the main enumeration
            if n.startswith(("REM", "DATA")):
                continue  # at the start of a statement these spell a comment / a DATA statement, not a variable
            if n in DOLLAR_FUNCTIONS:
                continue  # NAME$ is the function itself (STR$, INKEY$ ...) while NAME is an ordinary variable
            if n[:2] in ("DO", "PI", "SQ"):
                continue  # known finding F07-reserved-varname of C07
            out.append(n)
    return out


def judge_special(n):
    """one program per syntactic position (a refusal in one position must not hide another position)."""
    text, exp = program(n)
    lines = text.splitlines()
    verdicts = []
    outcomes = []
    for ln in lines[:-1]:
        num = int(ln.split()[0])
        prog = ln + "\n" + lines[-1] + "\n"
        r = tool.convert(prog, initialize_vars=False, add_standard_prefix=False)
        if not r.ok:
            outcomes.append("refused" if r.refused else r.kind)
            continue
        outcomes.append("ok")
        try:
            got = ids_of_output(r.text)
        except S.B09SyntaxError as e:
            verdicts.append(("unparsable-output", f"position line {num} ({ln!r}): {e}"))
            continue
        have = got.get(num, Counter())  # (the prologue region holds the declarations of undimensioned arrays)
        want = exp[num]
        if have != want:
            verdicts.append(("identifier-mapping", f"position line {num} ({ln!r}): identifiers {dict(have)} expected {dict(want)}"))
        for i in have:
            if not USER_ID.match(i):
                verdicts.append(("identifier-shape", f"emitted user identifier {i!r} is not (arr_)?[A-Z][A-Z0-9]?$?"))
    bad = [o for o in outcomes if o not in ("ok", "refused")]
    if bad:
        return bad[0], None
    if "ok" not in outcomes:
        return "refused", None
    return "ok", verdicts[:2]


def judge(n):
    if isinstance(n, tuple) and n[0] == "special":
        return judge_special(n[1])
    implicit = isinstance(n, tuple) and n[0] == "implicit"
    if implicit:
        n = n[1]
    text, exp = program(n)
    if implicit:
        # the same program without its DIM line: both arrays are declared (and filled) by the tool itself
        text = text.split("\n", 1)[1]
        exp = {k: v for k, v in exp.items() if k != 10}
    r = tool.convert(text, initialize_vars=True, add_standard_prefix=False)
    if not r.ok:
        return ("refused" if r.refused else r.kind), None
    try:
        got = ids_of_output(r.text)
    except S.B09SyntaxError as e:
        return "unparsable", str(e)
    v = []
    for reg, want in exp.items():
        have = got.get(reg, Counter())
        if reg == 10:
            # with initialize_vars the DIM line is followed by one fill loop per array: each array named twice
            want = want + want
        if have != want:
            v.append(("identifier-mapping", f"line {reg}: identifiers {dict(have)} expected {dict(want)}"))
            break
    pro = got.get(None, Counter())
    k = n[:2]
    hx, hy = ("X2", "Y2") if k in ("X1", "Y1") else ("X1", "Y1")
    want_pro = {k, k + "$", hx, "arr_" + hy}
    twice = {"arr_" + hy}
    if implicit:
        want_pro |= {"arr_" + k, "arr_" + k + "$"}
        twice |= {"arr_" + k, "arr_" + k + "$"}
    if set(pro) != want_pro or any(c != (2 if i in twice else 1) for i, c in pro.items()):
        v.append(("prologue-identifiers", f"pre-initialisation names {dict(pro)} expected one each of {sorted(want_pro)}"))
    allids = set()
    for c in got.values():
        allids |= set(c)
    for i in allids:
        if not USER_ID.match(i):
            v.append(("identifier-shape", f"emitted user identifier {i!r} is not (arr_)?[A-Z][A-Z0-9]?$?"))
            break
    return "ok", v


def work(chunk):
    return [judge(n) for n in chunk]


def names(run):
    A = string.ascii_uppercase
    AN = A + string.digits
    out = list(A) + [a + b for a in A for b in AN] + [a + b + c for a in A for b in AN for c in AN]
    run.states += 1 + 26 + 26 * 36 + 26 * 36 * 36
    run.transitions += 26 + 26 * 36 + 26 * 36 * 36
    if run.tier == "thorough":
        tail = "AZ09E$"[:5]
        extra = [a + b + c + d for a in A for b in AN for c in AN for d in "AZ09"]
        out += extra
        run.states += len(extra)
        run.transitions += len(extra)
    return out


GEN_PROGRAMS = {
    "hbuff": "10 HBUFF 1,100\n20 HGET(0,0)-(10,10),1\n30 HPUT(0,0)-(10,10),1,PSET\n40 AB$=\"X\":C=1:PI1=2\n",
    "joystk": "10 A=JOYSTK(0)+JOYSTK(1):JO=1:J0=2\n",
    "handlers": "10 ON ERR GOTO 100\n20 ON BRK GOTO 100\n30 ER=ERNO:E=1\n100 END\n",
    "play": "10 PLAY \"CDE\":PL=1:P$=\"X\"\n20 SOUND 1,1:DI=2:D$=\"Y\"\n",
    "temps": "10 TM=INT(T)+VAL(T$):TMP=1:T1=2\n20 PRINT STR$(TM);HEX$(T1)\n",
}


def judge_generated(name):
    """programs that make the tool emit its own identifiers: none of them may be initialised / declared like a user variable,
    and every initialised name must be a user name of the source"""
    text = GEN_PROGRAMS[name]
    v = []
    for opts in ({"initialize_vars": True}, {"initialize_vars": True, "default_str_storage": 80}, {"initialize_vars": True, "output_dependencies": True, "procname": "p"}):
        r = tool.convert(text, **opts)
        if not r.ok:
            continue
        body = r.text.replace("\r\n", "\n").replace("\r", "\n")
        idx = [m.start() for m in re.finditer(r"(?im)^procedure\s", body)]
        if idx:
            body = body[idx[-1]:]
        for ln in body.split("\n"):
            m = re.match(r"\s*([A-Za-z_][A-Za-z0-9_]*\$?)\s*:=\s*(0\.0|0|\"\")\s*$", ln)
            if not m:
                continue
            ident = m.group(1)
            if GENERATED.match(ident) or not USER_ID.match(ident):
                v.append(("generated-identifier-initialised", f"{name}: the pre-initialisation prologue treats the tool's own identifier {ident!r} as a user variable ({ln.strip()!r})"))
        decl = re.findall(r"(?im)^\s*dim\s+(pid|display|play|erno)\s*:", body)
        for g in ("pid", "display", "play", "erno"):
            if [d.lower() for d in decl].count(g) > 1:
                v.append(("generated-identifier-declared-twice", f"{name}: {g} is declared {[d.lower() for d in decl].count(g)} times"))
    return v


def run(run):
    run.rule = ("one program per name holding the name in all four kinds in 13 positions; names = all of [A-Z][A-Z0-9]{0,2} (+ length 4 with last char in {A,Z,0,9} in thorough); "
                "distinct = names; non-trivial = accepted by the tool (refused names are counted)")
    run.assumptions = ["Color BASIC identity: first two characters + type suffix + kind", "generated identifiers: tmp_N[$], display, play, pid, erno, errnum, joy0x.."]
    for gname in sorted(GEN_PROGRAMS):
        run.states += 1
        run.transitions += 1
        run.evaluations += 3
        for sym, detail in judge_generated(gname):
            run.violation(sym, {"generated", "prog:" + gname}, {"generated": gname}, detail)
    ns = names(run)
    sp = [("special", n) for n in special_names()]
    sp += [("implicit", n) for n in ns if len(n) <= 2]
    run.states += len(sp)
    run.transitions += len(sp)
    ns = ns + sp
    i = 0
    acc = 0
    for res in core.pmap(work, ns, chunk=400):
        for outcome, v in res:
            n = ns[i]
            i += 1
            special = isinstance(n, tuple) and n[0] == "special"
            implicit = isinstance(n, tuple) and n[0] == "implicit"
            if isinstance(n, tuple):
                n = n[1]
            run.evaluations += 1
            run.count("names:" + outcome)
            if outcome == "ok":
                acc += 1
                if acc % 6000 == 1:
                    run.sample({"name": n, "program": program(n)[0], "verdict": v})
                for sym, detail in v:
                    feats = {"len%d" % len(n)} | ({"special-name"} if special else set()) | ({"implicit-arrays"} if implicit else set())
                    if len(n) >= 2 and n[1].isdigit():
                        feats.add("second-char-digit")
                    run.violation(sym, feats, {"name": n, "special": special, "implicit": implicit}, f"name {n}{' (arrays not DIMensioned)' if implicit else ''}: {detail}")
            elif outcome == "unparsable" and n[:2] in ("DO", "PI", "SQ"):
                run.count("names:b09-reserved (known finding F07-reserved-varname of C07)")
            elif outcome == "unparsable":
                run.violation("unparsable-output", {"len%d" % len(n)}, {"name": n}, f"name {n}: {v}")
            elif outcome != "refused":
                run.violation("internal-error", set(), {"name": n}, f"name {n}: {outcome}")
    run.distinct_n = acc


def replay(case):
    if case.get("generated"):
        return {"violations": [list(x) for x in judge_generated(case["generated"])]}
    o, v = judge(("special", case["name"]) if case.get("special") else (("implicit", case["name"]) if case.get("implicit") else case["name"]))
    return {"outcome": o, "violations": v if isinstance(v, list) else [v]}
