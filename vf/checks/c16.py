"""C16 Decoders reproduce every pixel and palette entry of an uncompressed image.

Space: value factor (all 256 byte values x palettes covering all 64 codes in every slot
x all pixel modes) and position factor (linear patterns with 4 odd multipliers, one-hot
images at row/page boundaries) for every uncompressed layout.  Every file is decoded by
the real tool through start(argv); the output is parsed by the independent PNM/PNG
reader and compared sample by sample with the reference rendering.
"""
import os
import re

from vf import core
from vf.img import cases as C
from vf.img import formats as F
from vf.img import tools as T

LEVEL = "model_checking"


def _mk(tool, opts, data, expect, feats, label):
    return {"tool": tool, "opts": list(opts), "data": data, "expect": expect, "features": sorted(feats), "label": label}


def gen_cases(run):
    quick = run.tier == "quick"
    pal_ks_small = range(64)
    pal_ks_big = [0, 16, 32, 48] if quick else range(0, 64, 4)
    lin = [(1, 0), (3, 7), (5, 130), (251, 77)]
    cases = []

    # ---- HRS --------------------------------------------------------------------
    for d in core.cube(run, [("k", pal_ks_small)]):
        pal = C.palette(d["k"])
        body = bytes(range(256))  # w=2 -> one byte per row, all values
        exp = ("pnm", 2, 256, 3, F.expected_ppm_from_bytes(body, pal, 2, 256))
        cases.append(_mk("hrs", ["-w", "2", "-r", "256"], F.hrs_file(pal, body), exp, [], f"hrs value k={d['k']}"))
    for d in core.cube(run, [("w", [2, 4, 6, 16, 320]), ("r", [1, 2, 3, 192]), ("ac", lin[:2] if quick else lin), ("k", [0, 21])]):
        w, r = d["w"], d["r"]
        a, c = d["ac"]
        pal = C.palette(d["k"])
        body = C.body_lin(w // 2 * r, a, c)
        exp = ("pnm", w, r, 3, F.expected_ppm_from_bytes(body, pal, w, r))
        cases.append(_mk("hrs", ["-w", str(w), "-r", str(r)], F.hrs_file(pal, body), exp, [], f"hrs {w}x{r} a={a}"))
    # default geometry, skip
    pal = C.palette(9)
    body = C.body_lin(160 * 192, 3, 1)
    cases.append(_mk("hrs", [], F.hrs_file(pal, body), ("pnm", 320, 192, 3, F.expected_ppm_from_bytes(body, pal, 320, 192)), [], "hrs default"))
    cases.append(_mk("hrs", ["-s", "7"], F.hrs_file(pal, body, skip=b"SKIPPED"), ("pnm", 320, 192, 3, F.expected_ppm_from_bytes(body, pal, 320, 192)), [], "hrs skip"))
    run.states += 2
    run.transitions += 2

    # ---- PIX --------------------------------------------------------------------
    for d in core.cube(run, [("side", [2, 4, 8, 16, 32, 64]), ("ac", lin)]):
        side = d["side"]
        a, c = d["ac"]
        data = C.body_lin(side * side // 2, a, c)
        cases.append(_mk("pix", [], data, ("pnmbytes", F.pix_expected(data)), [], f"pix side={side} a={a}"))
    for d in core.cube(run, [("v", range(256)), ("w", [0x00, 0xFF] if quick else [0x00, 0x5A, 0xA5, 0xFF])]):
        data = bytes([d["v"], d["w"]])
        cases.append(_mk("pix", [], data, ("pnmbytes", F.pix_expected(data)), [], "pix value"))

    # ---- MAX / ART --------------------------------------------------------------
    for d in core.cube(run, [("mode", F.MAX_MODES)]):
        mode = d["mode"]
        body = bytes(range(256))
        px = []
        for v in body:
            px += F.max_row_pixels([v], mode)
        exp = ("rgb", 8, 256, px)
        cases.append(_mk("max", F.MAX_FLAGS[mode] + ["-w", "8"], F.max_file(body), exp, [], f"max value {mode}"))
        # pairs of bytes in one row (artifact filters carry state across bytes)
        alpha = [0x00, 0xFF, 0xAA, 0x55, 0x0F, 0xF0, 0x81, 0x7E, 0x33, 0xCC, 0x01, 0x80, 0x5A, 0xA5, 0x18, 0xE7] if quick else list(range(0, 256, 3)) + [255]
        body = bytes(x for p in alpha for q in alpha for x in (p, q))
        px = []
        for i in range(0, len(body), 2):
            px += F.max_row_pixels(body[i : i + 2], mode)
        rows = len(body) // 2
        if rows > 65535 // 2:
            opts = ["-w", "16", "-r", str(rows)]
        else:
            opts = ["-w", "16"]
        cases.append(_mk("max", F.MAX_FLAGS[mode] + opts, F.max_file(body), ("rgb", 16, rows, px), [], f"max pairs {mode}"))
        # default width 256, 3 rows; newsroom header
        body = C.body_lin(32 * 3, 5, 9)
        px = []
        for r in range(3):
            px += F.max_row_pixels(body[r * 32 : (r + 1) * 32], mode)
        cases.append(_mk("max", F.MAX_FLAGS[mode], F.max_file(body), ("rgb", 256, 3, px), [], f"max default width {mode}"))
        body = C.body_lin(5 * 7, 3, 2)
        px = []
        for r in range(7):
            px += F.max_row_pixels(body[r * 5 : (r + 1) * 5], mode)
        cases.append(_mk("max", F.MAX_FLAGS[mode] + ["-newsroom"], F.newsroom_file(5, 7, body), ("rgb", 40, 7, px), [], f"max newsroom {mode}"))
        # header bytes at and above 128 (unsigned): 128 / 255 rows, 128 columns of bytes
        for colsb, nrows in ((3, 127), (3, 128), (2, 255), (128, 2)):
            if mode != F.MAX_MODES[0] and (colsb, nrows) != (3, 128):
                continue
            b2 = C.body_lin(colsb * nrows, 5, 1)
            px2 = []
            for r in range(nrows):
                px2 += F.max_row_pixels(b2[r * colsb : (r + 1) * colsb], mode)
            cases.append(_mk("max", F.MAX_FLAGS[mode] + ["-newsroom"], F.newsroom_file(colsb, nrows, b2), ("rgb", colsb * 8, nrows, px2), [], f"max newsroom {colsb}x{nrows} {mode}"))
        # the same picture behind a preamble that -s skips (header variant x option: both must compose), and with -w / -r that Newsroom ignores
        cases.append(_mk("max", F.MAX_FLAGS[mode] + ["-newsroom", "-s", "3"], bytes([7, 3, 0x55]) + F.newsroom_file(5, 7, body), ("rgb", 40, 7, px), [], f"max newsroom skip {mode}"))
        cases.append(_mk("max", F.MAX_FLAGS[mode] + ["-s", "1", "-newsroom", "-w", "16"], bytes([9]) + F.newsroom_file(5, 7, body), ("rgb", 40, 7, px), [], f"max newsroom skip width {mode}"))
    # full default picture 256x192
    body = C.body_lin(32 * 192, 7, 3)
    px = []
    for r in range(192):
        px += F.max_row_pixels(body[r * 32 : (r + 1) * 32], "bw")
    cases.append(_mk("max", [], F.max_file(body), ("rgb", 256, 192, px), [], "max full bw"))
    run.states += 1
    run.transitions += 1

    # ---- MGE raw ----------------------------------------------------------------
    for d in core.cube(run, [("rgbflag", [0, 1]), ("ac", lin), ("k", pal_ks_big)]):
        a, c = d["ac"]
        pal = C.palette(d["k"])
        body = C.body_lin(32000, a, c)
        if d["rgbflag"] == 0:
            exp = ("pnm", 320, 200, 3, F.expected_ppm_from_bytes(body, pal, 320, 200))
        else:
            exp = ("cmp", pal, body)
        cases.append(_mk("mge", [], F.mge_raw_file(pal, body, rgb_flag=d["rgbflag"]), exp, [], f"mge raw flag={d['rgbflag']} a={a} k={d['k']}"))
    if not quick:
        for d in core.cube(run, [("rgbflag", [0, 1]), ("k", range(64))]):
            pal = C.palette(d["k"])
            body = C.body_lin(32000, 1, d["k"])
            exp = ("pnm", 320, 200, 3, F.expected_ppm_from_bytes(body, pal, 320, 200)) if d["rgbflag"] == 0 else ("cmp", pal, body)
            cases.append(_mk("mge", [], F.mge_raw_file(pal, body, rgb_flag=d["rgbflag"]), exp, [], "mge all codes"))
    # composite: all 64 codes (4 palettes of 16 consecutive codes)
    for d in core.cube(run, [("base", [0, 16, 32, 48]), ("flagval", [1, 255])]):
        pal = [d["base"] + i for i in range(16)]
        body = C.body_lin(32000, 1, 0)
        cases.append(_mk("mge", [], F.mge_raw_file(pal, body, rgb_flag=d["flagval"]), ("cmp", pal, body), [], f"mge cmp base={d['base']}"))
    onehots = [0, 1, 159, 160, 161, 319, 16000, 31839, 31840, 31999]
    for d in core.cube(run, [("pos", onehots)]):
        pal = C.palette(3)
        body = C.body_onehot(32000, d["pos"])
        cases.append(_mk("mge", [], F.mge_raw_file(pal, body), ("pnm", 320, 200, 3, F.expected_ppm_from_bytes(body, pal, 320, 200)), [], f"mge onehot {d['pos']}"))

    # ---- CM3 raw ----------------------------------------------------------------
    for d in core.cube(run, [("two", [False, True]), ("pat", [False, True]), ("ac", lin[:2] if quick else lin), ("k", pal_ks_big[:2] if quick else pal_ks_big)]):
        a, c = d["ac"]
        pal = C.palette(d["k"])
        rows = 384 if d["two"] else 192
        body = C.body_lin(rows * 160, a, c)
        cases.append(_mk("cm3", [], F.cm3_raw_file(pal, body, d["two"], d["pat"]), ("pnm", 320, rows, 3, F.expected_ppm_from_bytes(body, pal, 320, rows)), [], f"cm3 raw two={d['two']} pat={d['pat']} a={a}"))
    for d in core.cube(run, [("two", [False, True]), ("pos", [0, 159, 160, 30719, 30720, 30721, 61439])]):
        rows = 384 if d["two"] else 192
        if d["pos"] >= rows * 160:
            continue
        pal = C.palette(11)
        body = C.body_onehot(rows * 160, d["pos"])
        cases.append(_mk("cm3", [], F.cm3_raw_file(pal, body, d["two"], True), ("pnm", 320, rows, 3, F.expected_ppm_from_bytes(body, pal, 320, rows)), [], f"cm3 onehot {d['pos']}"))

    # ---- VEF raw ----------------------------------------------------------------
    for d in core.cube(run, [("vtype", [0, 1, 3]), ("ac", lin), ("k", pal_ks_big)]):
        a, c = d["ac"]
        pal = C.palette(d["k"])
        n = F.VEF_TYPES[d["vtype"]]["rec"] * 400
        body = C.body_lin(n, a, c)
        cases.append(_mk("vef", [], F.vef_raw_file(pal, body, d["vtype"]), ("png", d["vtype"], pal, body), [], f"vef raw type={d['vtype']} a={a} k={d['k']}"))
    for d in core.cube(run, [("vtype", [0, 1, 3]), ("pos", [0, 39, 40, 79, 80, 159, 160, -1])]):
        n = F.VEF_TYPES[d["vtype"]]["rec"] * 400
        pal = C.palette(30)
        body = C.body_onehot(n, d["pos"] % n)
        cases.append(_mk("vef", [], F.vef_raw_file(pal, body, d["vtype"]), ("png", d["vtype"], pal, body), [], f"vef onehot {d['pos']}"))
    # palette bytes whose two unused high bits are set denote the colour of their low six bits
    for d in core.cube(run, [("vtype", [0, 1, 3]), ("hi", [0x40, 0x80, 0xC0]), ("k", [0, 21])]):
        n = F.VEF_TYPES[d["vtype"]]["rec"] * 400
        pal = C.palette(d["k"])
        pal_file = [(c | d["hi"]) if i % 2 else c for i, c in enumerate(pal)]
        body = C.body_lin(n, 3, 7)
        cases.append(_mk("vef", [], F.vef_raw_file(pal_file, body, d["vtype"]), ("png", d["vtype"], pal, body), [], f"vef palette high bits {d['hi']:#x} type={d['vtype']}"))
    # every header variant of the formats that can arrive on standard input, read from a (non-seekable) pipe and written to standard output
    piped = []
    for case in cases:
        if case["tool"] in T.STDIN_OK and case["tool"] in T.STDOUT_OK and (case["tool"], tuple(case["opts"]), len(case["data"])) not in {(c["tool"], tuple(c["opts"]), len(c["data"])) for c in piped}:
            piped.append(dict(case, stdin=True, label=case["label"] + " [stdin->stdout]"))
    run.states += len(piped)
    run.transitions += len(piped)
    return cases + piped


_CMP_REF = None


def cmp_reference():
    """CMP colour table of mge_viewer2 (parsed from the source text, not imported)."""
    global _CMP_REF
    if _CMP_REF is None:
        src = open(os.path.join(core.REPO, "coco", "mge_viewer2.py")).read()
        m = re.search(r"CMP\s*=\s*\[(.*?)\]", src, re.S)
        _CMP_REF = [tuple(int(h[i : i + 2], 16) for i in (1, 3, 5)) for h in re.findall(r'"(#[0-9A-Fa-f]{6})"', m.group(1))]
    return _CMP_REF


def judge(case, oc):
    """-> list of (symptom, detail)."""
    exp = case["expect"]
    if oc.status != "ok":
        return [("decoder-failed:" + oc.status.split(":")[0], oc.status + " " + oc.detail)]
    kind = exp[0]
    try:
        if kind == "pnm":
            _, w, h, ch, ref = exp
            gw, gh, gch, payload = F.pnm_pixels(oc.out)
            rw, rh, rch, rpay = F.pnm_pixels(ref)
            if (gw, gh, gch) != (rw, rh, rch):
                return [("wrong-dimensions", f"{gw}x{gh}x{gch} != {rw}x{rh}x{rch}")]
            i = C.first_diff(payload, rpay)
            if i >= 0:
                return [("pixel-differs", f"first difference at sample {i} (pixel {i // gch}): got {payload[i:i+3].hex()} expected {rpay[i:i+3].hex()}")]
        elif kind == "pnmbytes":
            rw, rh, rch, rpay = F.pnm_pixels(exp[1])
            gw, gh, gch, payload = F.pnm_pixels(oc.out)
            if (gw, gh, gch) != (rw, rh, rch):
                return [("wrong-dimensions", f"{gw}x{gh}x{gch} != {rw}x{rh}x{rch}")]
            i = C.first_diff(payload, rpay)
            if i >= 0:
                return [("pixel-differs", f"first difference at sample {i}: got {payload[i]} expected {rpay[i]}")]
        elif kind == "rgb":
            _, w, h, px = exp
            gw, gh, gch, payload = F.pnm_pixels(oc.out)
            if (gw, gh, gch) != (w, h, 3):
                return [("wrong-dimensions", f"{gw}x{gh}x{gch} != {w}x{h}x3")]
            ref = bytes(x for p in px for x in p)
            i = C.first_diff(payload, ref)
            if i >= 0:
                return [("pixel-differs", f"first difference at sample {i} (pixel {i // 3}): got {payload[i - i % 3:i - i % 3 + 3].hex()} expected {ref[i - i % 3:i - i % 3 + 3].hex()}")]
        elif kind == "cmp":
            _, pal, body = exp
            gw, gh, gch, payload = F.pnm_pixels(oc.out)
            if (gw, gh, gch) != (320, 200, 3):
                return [("wrong-dimensions", f"{gw}x{gh}x{gch}")]
            # derive code->colour map; must be a function, and consistent over positions
            table = {}
            p = 0
            for b in body:
                for idx in (b >> 4, b & 15):
                    col = payload[p : p + 3]
                    p += 3
                    code = pal[idx]
                    if table.setdefault(code, col) != col:
                        return [("pixel-differs", f"composite code {code} rendered as both {table[code].hex()} and {col.hex()} (sample {p - 3})")]
            return [("__cmp_table__", table)]
        elif kind == "png":
            _, vtype, pal, body = exp
            img = F.parse_png(oc.out)
            ref = F.vef_expected_rgb(pal, body, vtype)
            if (img["width"], img["height"]) != (len(ref[0]), len(ref)):
                return [("wrong-dimensions", f"{img['width']}x{img['height']} != {len(ref[0])}x{len(ref)}")]
            for y, (grow, rrow) in enumerate(zip(img["rgb"], ref)):
                if [tuple(p) for p in grow] != rrow:
                    x = next(i for i in range(len(rrow)) if tuple(grow[i]) != rrow[i])
                    return [("pixel-differs", f"row {y} col {x}: got {tuple(grow[x])} expected {rrow[x]}")]
    except F.BadImage as e:
        return [("unparsable-output", str(e))]
    return []


def work(chunk):
    scratch = work.scratch
    res = []
    for case in chunk:
        oc = T.run_tool(case["tool"], case["data"], case["opts"], scratch, use_stdin=bool(case.get("stdin")), use_stdout=bool(case.get("stdin")))
        res.append(judge(case, oc))
    return res


def run(run):
    run.rule = ("cases = product of (layout variant, byte-value/position pattern, palette rotation); distinct = "
                "distinct (tool, options, file bytes); non-trivial = file contains >= 2 different byte values or covers the value sweep")
    run.assumptions = [
        "format layouts as documented in the decoders' own headers; colour code = RGBRGB six-bit CoCo 3 code",
        "MAX artifact modes (-br/-rb): the reference re-states the tool's documented YIQ formula",
        "MGE composite table: no independent table offline; judged structurally (function, permutation of the 64 colours) and by nearest-colour agreement with mge_viewer2.CMP",
    ]
    cases = gen_cases(run)
    work.scratch = run.scratch_dir()
    cmp_table = {}
    keys = set()
    idx = 0
    for res in core.pmap(work, cases, chunk=4):
        for verdicts in res:
            case = cases[idx]
            idx += 1
            run.evaluations += 1
            keys.add(hash((case["tool"], tuple(case["opts"]), case["data"])))
            run.count("decodes:" + case["tool"])
            if len(run.samples) < 6 and idx % 97 == 1:
                run.sample({"tool": case["tool"], "opts": case["opts"], "file_len": len(case["data"]), "file_head_hex": case["data"][:24].hex(), "label": case["label"]})
            for sym, detail in verdicts:
                if sym == "__cmp_table__":
                    for code, col in detail.items():
                        if cmp_table.setdefault(code, col) != col:
                            run.violation("pixel-differs", case["features"] + ["mge-cmp"], _rc(case), f"composite code {code} maps to {cmp_table[code].hex()} and {col.hex()} in different files")
                    continue
                run.violation(sym, case["features"], _rc(case), f"{case['label']}: {detail}")
    run.distinct_n = len(keys)
    # composite table judgement
    if cmp_table:
        run.count("cmp_codes_observed", len(cmp_table))
        all_rgb = {bytes(F.rgb(c)) for c in range(64)}
        cols = [bytes(v) for v in cmp_table.values()]
        case = {"tool": "mge", "what": "composite table", "table": {k: v.hex() for k, v in sorted(cmp_table.items())}}
        if len(cmp_table) == 64:
            if set(cols) != all_rgb or len(set(cols)) != 64:
                run.violation("cmp-table-not-permutation", ["mge-cmp"], case, "the composite->RGB map is not a permutation of the 64 CoCo 3 colours")
        # independent anchors: hue 0 of each intensity group is the grey ramp black/dark grey/light grey/white
        if len(cmp_table) == 64:
            greys = {0: (0, 0, 0), 16: (85, 85, 85), 32: (170, 170, 170), 48: (255, 255, 255)}
            for code, g in greys.items():
                if tuple(cmp_table[code]) != g:
                    run.violation("cmp-table-grey-anchor", ["mge-cmp"], case, f"composite code {code} (hue 0) should be grey {g}, got {tuple(cmp_table[code])}")
            luma = [sum(0.3 * cmp_table[c][0] + 0.59 * cmp_table[c][1] + 0.11 * cmp_table[c][2] for c in range(16 * g, 16 * g + 16)) / 16 for g in range(4)]
            if not (luma[0] < luma[1] < luma[2] < luma[3]):
                run.violation("cmp-table-luma-order", ["mge-cmp"], case, f"mean luminance of the four intensity groups is not increasing: {luma}")
        ref = cmp_reference()
        if len(ref) == 64:
            # rank of the chosen colour among the 64 RGB colours by distance to the CMP reference colour
            worst = 0
            bad = []
            for code, col in sorted(cmp_table.items()):
                tgt = ref[code]
                d = lambda c: sum((a - b) ** 2 for a, b in zip(c, tgt))  # noqa
                rank = sum(1 for c in range(64) if d(F.rgb(c)) < d(tuple(col)))
                worst = max(worst, rank)
                if rank > CMP_RANK_BOUND:
                    bad.append((code, col.hex(), rank))
            run.count("cmp_worst_rank", worst)
            # 2-opt consistency with the reference: exchanging the colours of two codes must not bring both
            # closer to mge_viewer2.CMP, except for the pairs where the pinned table already is not locally optimal
            if len(cmp_table) == 64:
                dist = lambda a, b: sum((x - y) ** 2 for x, y in zip(a, b)) ** 0.5  # noqa
                newbad = []
                for i in range(64):
                    for j in range(i + 1, 64):
                        cur = dist(cmp_table[i], ref[i]) + dist(cmp_table[j], ref[j])
                        sw = dist(cmp_table[j], ref[i]) + dist(cmp_table[i], ref[j])
                        if sw < cur - 1e-9 and (i, j) not in CMP_PINNED_NON_OPTIMAL:
                            newbad.append((i, j, round(cur - sw, 1)))
                run.count("cmp_pairs_checked", 2016)
                if newbad:
                    run.violation("cmp-table-pair-exchange", ["mge-cmp"], case, f"composite codes whose colours look exchanged relative to mge_viewer2.CMP: {newbad[:6]}")
            if bad:
                run.violation("cmp-table-far-from-reference", ["mge-cmp"], case, f"codes whose RGB is not among the {CMP_RANK_BOUND + 1} nearest colours of mge_viewer2.CMP: {bad[:8]}")


CMP_PINNED_NON_OPTIMAL = {(1, 17), (1, 18), (1, 19), (1, 34), (3, 15), (3, 18), (3, 19), (5, 7), (5, 9), (5, 20), (5, 21), (5, 23), (5, 39), (6, 7), (6, 22), (6, 23), (6, 39), (8, 23), (10, 12), (10, 28), (10, 44), (11, 12), (11, 13), (11, 15), (11, 28), (12, 13), (12, 28), (13, 28), (15, 18), (15, 28), (15, 34), (15, 44), (17, 31), (19, 34), (22, 23), (22, 39), (26, 42), (26, 43), (26, 58), (28, 29), (29, 44), (31, 34), (48, 63), (49, 50), (61, 62)}
CMP_RANK_BOUND = 25  # worst rank observed on the pinned tree (weak oracle, see DESIGN C16)


def _rc(case):
    return {"tool": case["tool"], "opts": case["opts"], "data_hex": case["data"].hex() if len(case["data"]) <= 4096 else None,
            "data_len": len(case["data"]), "label": case["label"], "gen": "c16"}


def replay(case):
    import tempfile
    if not case.get("data_hex"):
        return {"violations": [], "note": "file too large to embed; re-run the check (deterministic) to reproduce: " + case.get("label", "")}
    d = tempfile.mkdtemp(prefix="verif_replay_")
    oc = T.run_tool(case["tool"], bytes.fromhex(case["data_hex"]), case["opts"], d)
    import shutil
    shutil.rmtree(d, ignore_errors=True)
    return {"status": oc.status, "out_len": None if oc.out is None else len(oc.out), "out_head": None if oc.out is None else oc.out[:64].hex(), "violations": ["see check output"] if oc.status != "ok" else []}
