"""C08 Source layout does not change the translation.

For every catalogue statement (token list with typed boundaries): baseline = minimal
layout; every layout with at most d boundaries deviating (free boundaries 0/1/2 blanks,
guarded boundaries 1/2 blanks) is enumerated; plus line-end styles, blank lines, trailing
NUL, '?' for PRINT, blanks inside numeric / hex literals, blanks around the line number.
Oracle: all layouts of one abstract program fall in one class (all refused, or identical
bytes).  Content blanks (string literals, DATA items, comments) must survive verbatim.
"""
import itertools
import re

from vf import core, tool
from vf.gen import catalogue as K
from vf.gen import features as FE

LEVEL = "model_checking"

KEYWORDS = FE.ALL_KEYWORDS | {"XOR", "AND", "OR", "NOT", "ELSE", "THEN", "TO", "STEP", "GOTO", "GOSUB", "BRK", "ERR", "ERNO", "INKEY$", "STRING$", "STR$", "HEX$", "CHR$", "LEFT$",
                              "RIGHT$", "MID$", "ASC", "LINE", "PSET", "PRESET", "TAB", "DATA", "REM", "LET", "IF", "ON", "FOR", "NEXT", "DIM", "PRINT"}


def is_ident(t):
    return isinstance(t, str) and re.fullmatch(r"[A-Z][A-Z0-9]*", t) is not None and t not in KEYWORDS


def text_of(t):
    return t[1] if isinstance(t, tuple) else t


def boundary(a, b):
    """-> 'guard' (needs >= 1 blank), 'free', or 'fixed' (content: never varied)."""
    if isinstance(a, tuple) and a[0] in ("TEXT",):
        return "fixed"
    if isinstance(b, tuple) and b[0] == "TEXT":
        return "fixed"  # blanks after REM / ' are comment content
    if isinstance(a, tuple) and a[0] == "ITEM" and not a[1].startswith('"'):
        return "fixed"  # blanks after an unquoted DATA item are content
    ta, tb = text_of(a), text_of(b)
    if isinstance(a, str) and a.startswith('"') and not a.endswith('"'):
        return "fixed"
    if isinstance(a, str) and a.startswith('"') and len(a) > 1 and a.endswith('"') is False:
        return "fixed"
    b0 = tb[:1]
    if (is_ident(a) or (isinstance(a, str) and a.startswith("&H"))) and (b0.isalnum()):
        return "guard"
    if isinstance(a, str) and a in KEYWORDS and a[-1:].isalpha() and b0.isalpha() and False:
        return "guard"
    if ta[-1:].isdigit() or ta[-1:] == ".":
        if (isinstance(a, str) and re.fullmatch(r"[\d.]+(E[+-]?\d+)?", ta)) or (isinstance(a, tuple)):
            if b0.isdigit() or b0 == "." or (b0 == "E" and not tb.startswith("ELSE")):
                return "guard"
    # keyword followed by a letter/digit that would extend it into another word is still free in Color BASIC
    return "free"


def render(toks, gaps):
    out = []
    for i, t in enumerate(toks):
        out.append(text_of(t))
        if i < len(toks) - 1:
            out.append(" " * gaps[i])
    return "".join(out)


def layouts(toks, d):
    """yield (gaps, ndev) for all layouts with <= d deviating boundaries."""
    kinds = [boundary(toks[i], toks[i + 1]) for i in range(len(toks) - 1)]
    base = []
    for i, k in enumerate(kinds):
        if k == "fixed":
            t = toks[i + 1]
            base.append(0)
        elif k == "guard":
            base.append(1)
        else:
            base.append(0)
    alts = []
    for i, k in enumerate(kinds):
        if k == "fixed":
            alts.append([])
        elif k == "guard":
            alts.append([2])
        else:
            alts.append([1, 2])
    yield tuple(base), 0
    idx = [i for i in range(len(kinds)) if alts[i]]
    for r in range(1, d + 1):
        for pos in itertools.combinations(idx, r):
            for vals in itertools.product(*[alts[i] for i in pos]):
                g = list(base)
                for i, v in zip(pos, vals):
                    g[i] = v
                yield tuple(g), r


def gen(run):
    quick = run.tier == "quick"
    d = 2
    groups = []
    for name, stmt, alt in K.CATALOGUE:
        toks = K.tokens(stmt)
        # TEXT tokens carry their own leading blank; DATA items after commas
        variants = []
        n_lay = 0
        for gaps, ndev in layouts(toks, d if quick or len(toks) > 12 else 3):
            body = render(toks, gaps)
            variants.append(("layout", f"10 {body}\n100 PRINT \"L100\"\n110 PRINT \"L110\"\n"))
            n_lay += 1
        run.states += n_lay
        run.transitions += n_lay
        base_body = render(toks, next(layouts(toks, 0))[0])
        nat = " ".join(text_of(t) if not (isinstance(t, tuple) and t[0] == "TEXT") else t[1].lstrip() for t in toks)
        tail = '100 PRINT "L100"\n110 PRINT "L110"\n'
        # line number boundary, trailing blanks, line ends, blank lines, NUL
        extra = [
            f"10{base_body}\n{tail}" if not base_body[:1].isdigit() else f"10 {base_body}\n{tail}",
            f"10  {base_body}\n{tail}",
            f"10 {base_body}\n\n\n{tail}",
            f"\n\n10 {base_body}\n{tail}",
            f"10 {base_body}\n{tail}\n\n",
            f"10 {base_body}\n{tail}".rstrip("\n"),
            f"10 {base_body}\n{tail}\x00",
            f"10 {base_body}\n{tail}".replace("\n", "\r"),
            f"10 {base_body}\n{tail}".replace("\n", "\r\n"),
            f"10 {base_body}\n  \n{tail}",
            f"10 {base_body}\n100  PRINT \"L100\"\n110 PRINT \"L110\"  \n",
        ]
        if not any(isinstance(t, tuple) and t[0] in ("TEXT", "ITEM") for t in toks) and not (isinstance(toks[-1], str) and toks[-1].startswith('"') and not toks[-1].endswith('"')):
            extra.append(f"10 {base_body}  \n{tail}")
            extra.append(f"10 {base_body} :\n{tail}" if False else f"10 {base_body}  \n{tail}")
        if toks and toks[0] == "PRINT":
            extra.append(f"10 ?{base_body[5:]}\n{tail}")
            extra.append(f"10 ? {base_body[5:].lstrip()}\n{tail}")
        for e in extra:
            variants.append(("frame", e))
        run.states += len(extra)
        run.transitions += len(extra)
        groups.append({"name": name, "stmt": stmt, "variants": variants})
    # literal-internal blanks
    lit_groups = [
        ("lit-exp", ["A=1E2", "A=1 E2", "A=1E 2", "A=1 E 2", "A = 1  E  2", "A=1E+2", "A=1 E + 2", "A=1E+ 2"]),
        ("lit-neg", ["A=-1", "A=- 1", "A= -1", "A = -  1"]),
        ("lit-signs", ["A=--5", "A=- -5", "A= - - 5", "A=-  -5"]),
        ("lit-signs2", ["A=B+-5", "A=B+ -5", "A=B + - 5"]),
        ("lit-signs-data", ["DATA --5,+-2", "DATA - -5,+ -2", "DATA  -  - 5 , + - 2"]),
        ("lit-signs3", ["A=-+-5", "A=- + - 5"]),
        ("lit-negexp", ["A=1.5E-1", "A=1.5 E-1", "A=1.5E -1", "A=1.5E- 1", "A=1.5 E - 1"]),
        ("lit-hex", ["A=&HFF", "A=& HFF", "A=&H FF", "A=& H FF", "A = &  H  FF"]),
        ("lit-hex-dim", ["DIM M(&HF)", "DIM M(& HF)", "DIM M(&H F)", "DIM M( & H F )"]),
        ("lit-data", ["DATA 1,-2.5,&HFF", "DATA 1 , -2.5 , &HFF", "DATA  1,- 2.5,& HFF", "DATA 1,-2.5,&H FF"]),
        ("lit-else", ['IF A THEN B=1ELSE C=2', 'IF A THEN B=1 ELSE C=2', 'IF A THEN B = 1  ELSE C=2']),
        ("lit-else-dec", ['IF A THEN B=1.5ELSE C=2', 'IF A THEN B=1.5 ELSE C=2', 'IF A THEN B=1.5  ELSE C=2']),
        ("lit-else-dec2", ['IF A THEN B=.5 ELSE C=2', 'IF A THEN B=.5ELSE C=2', 'IF A THEN B=.5  ELSE C=2', 'IF A THEN B = .5 ELSE C = 2']),
        ("lit-else-dec3", ['IF A THEN B=1. ELSE C=2', 'IF A THEN B=1.ELSE C=2', 'IF A THEN B=1.  ELSE C=2']),
        ("lit-else-hex", ['IF A THEN B=&H1F ELSE C=2', 'IF A THEN B=&H1F  ELSE C=2']),
        ("lit-to", ["FOR I=1TO 5", "FOR I=1 TO 5", "FOR I = 1 TO5", "FOR I=1TO5", "FOR I=1.TO 5" if False else "FOR I=1  TO  5"]),
        ("lit-step", ["FOR I=1 TO 5STEP 2", "FOR I=1 TO 5 STEP 2", "FOR I=1 TO 5 STEP2"]),
        ("hline-mode", ["HLINE(1,2)-(3,4),PSET,B", "HLINE (1,2)-(3,4), PSET , B", "HLINE(1,2)-(3,4),PSET ,B", "HLINE ( 1 , 2 ) - ( 3 , 4 ) , PSET  ,  B", "HLINE-(3,4),PRESET  ,BF", "HLINE-(3,4),PRESET,BF"][:4]),
        ("hline-mode2", ["HLINE-(3,4),PRESET,BF", "HLINE-(3,4),PRESET  ,BF", "HLINE - ( 3 , 4 ) , PRESET , BF"]),
        ("hline-mode3", ["HLINE-(3,4),PSET", "HLINE-(3,4),PSET  ", "HLINE-(3,4),PSET :A=1" if False else "HLINE-(3,4), PSET"]),
        ("hput-mode", ["HPUT(1,2)-(3,4),1,PSET", "HPUT(1,2)-(3,4),1,PSET  ", "HPUT (1,2)-(3,4), 1 , PSET"]),
        ("attr-opts", ["ATTR 1,2,B,U", "ATTR 1,2 , B , U", "ATTR 1,2,B ,U  "]),
    ]
    for gname, spellings in lit_groups:
        tailp = "\n20 NEXT\n" if gname in ("lit-to", "lit-step") else "\n"
        groups.append({"name": gname, "stmt": spellings[0], "variants": [("literal", f"10 {s}{tailp}") for s in spellings]})
        run.states += len(spellings)
        run.transitions += len(spellings)
    return groups


CONTENT = [
    ("string", '10 A$="{}"\n', '"{}"'),
    ("print", '10 PRINT "{}";B\n', '"{}"'),
    ("data-quoted", '10 DATA "{}",2\n', '"{}"'),
    ("data-unquoted-trailing", "10 DATA X{},2\n", '"X{}"'),
    ("data-unquoted-inner", "10 DATA X{}Y,2\n", '"X{}Y"'),
    ("rem", "10 REM{}X{}\n", "(*{}X{} *)"),
    ("tick", "10 '{}X{}\n", "(*{}X{} *)"),
    ("unterminated", '10 A$="X{}\n', '"X{}"'),
    ("hdraw", '10 HDRAW "BM{}1,2"\n', '"BM{}1,2"'),
]


def judge_group(g):
    outs = {}
    for kind, text in g["variants"]:
        r = tool.convert(text, add_standard_prefix=False)
        key = r.text if r.ok else ("REFUSED" if r.refused else r.kind)
        outs.setdefault(key, []).append((kind, text))
    v = []
    if len(outs) > 1:
        items = sorted(outs.items(), key=lambda kv: -len(kv[1]))
        (k1, l1), (k2, l2) = items[0], items[1]
        d1 = "refused" if k1 == "REFUSED" else ("converted" if not k1.startswith("internal") else k1)
        d2 = "refused" if k2 == "REFUSED" else ("converted" if not k2.startswith("internal") else k2)
        detail = f"{len(outs)} different outcomes over {len(g['variants'])} layouts: {l1[0][1]!r} -> {d1}; {l2[0][1]!r} -> {d2}"
        if d1 == d2 == "converted":
            a, b = k1.split("\n"), k2.split("\n")
            k = next((i for i in range(min(len(a), len(b))) if a[i] != b[i]), min(len(a), len(b)))
            detail += f"; first differing output line: {a[k:k+1]} vs {b[k:k+1]}"
        kinds = sorted({kk for kk, _ in l2})
        v.append(("layout-changes-translation", detail, {"a": l1[0][1], "b": l2[0][1], "kinds": kinds}))
    return v, len(g["variants"])


CONTENT_OPTS = [{"output_dependencies": True, "procname": "p"}, {"output_dependencies": True, "procname": "p", "initialize_vars": True, "filter_unused_linenum": True, "default_str_storage": 80},
                {"output_dependencies": True, "procname": "p", "skip_procedure_headers": True}, {"filter_unused_linenum": True}, {"initialize_vars": True, "default_str_storage": 80}]
ENDINGS = ["\n", "", "\r", "\r\n", "\n\x00", "\x00", "\n\n", "\n20 A=1\n", "\n \n"]


def judge_content(c):
    """the content line is the last line of the program (or followed by another line): whatever ends the text, the blanks stay"""
    name, tpl, exp, blanks = c
    n = tpl.count("{}")
    want = exp.format(*([blanks] * exp.count("{}")))
    out = []
    for ending, opts in [(e, {"add_standard_prefix": False}) for e in ENDINGS] + [("\n", o) for o in CONTENT_OPTS]:
        text = tpl.format(*([blanks] * n))[:-1] + ending
        r = tool.convert(text, **opts)
        if not r.ok:
            out.append(("content-layout-refused", f"{text!r}: {r.kind}"))
        elif want not in r.text:
            out.append(("content-blanks-changed", f"{text!r}: expected {want!r} verbatim in {r.text!r}"))
        elif "\x00" in r.text:
            out.append(("trailing-nul-kept", f"{text!r}: the trailing NUL is part of the output {r.text!r}"))
    return out[:2]


def work(chunk):
    return [judge_group(g) for g in chunk]


def run(run):
    run.rule = ("per abstract statement: all layouts with <= 2 deviating token boundaries (0/1/2 blanks; guarded boundaries 1/2) + 13 frame variants (line ends, blank lines, NUL, ?, "
                "line-number blanks) + literal-internal blanks; distinct = abstract programs; non-trivial = more than one layout")
    run.assumptions = ["guarded boundaries: identifier or hex literal before a letter/digit; number before digit, '.', or a non-ELSE 'E'", "blanks after REM/' and after unquoted DATA items are content"]
    groups = gen(run)
    i = 0
    for res in core.pmap(work, groups, chunk=2):
        for verdicts, n in res:
            g = groups[i]
            i += 1
            run.evaluations += n
            if i % 30 == 1:
                run.sample({"statement": g["stmt"], "layouts": n, "examples": [t for _, t in g["variants"][:3]]})
            for sym, detail, extra in verdicts:
                run.violation(sym, {"stmt:" + g["name"]} | set(extra["kinds"]), {"name": g["name"], "a": extra["a"], "b": extra["b"]}, f"{g['name']}: {detail}")
    run.distinct_n = len(groups)
    # content blanks
    for name, tpl, exp in CONTENT:
        for blanks in ("", " ", "  ", "   "):
            run.states += len(ENDINGS) + len(CONTENT_OPTS)
            run.transitions += len(ENDINGS) + len(CONTENT_OPTS)
            run.evaluations += len(ENDINGS) + len(CONTENT_OPTS)
            for sym, detail in judge_content((name, tpl, exp, blanks)):
                run.violation(sym, {"content:" + name}, {"content": name, "tpl": tpl, "exp": exp, "blanks": blanks}, detail)


def replay(case):
    if "content" in case:
        return {"violations": judge_content((case["content"], case["tpl"], case["exp"], case["blanks"]))}
    a = tool.convert(case["a"], add_standard_prefix=False)
    b = tool.convert(case["b"], add_standard_prefix=False)
    same = (a.kind == b.kind) and (a.text == b.text)
    return {"a": a.kind, "b": b.kind, "violations": [] if same else ["outputs differ"]}
