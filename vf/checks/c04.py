"""C04 Screen, graphics and sound statements reach the runtime with the right operands.

Space: every device statement / function form x presence pattern of its optional
operands x operand shape in {literal, variable, array element, V+1, INT(V)} (the i-th
operand has the distinct value 11*i); pairs of device statements on one line.
Oracle: a role table (source operand role -> runtime parameter NAME, default when
omitted); parameter POSITIONS are read from the PARAM lines of the live ecb.b09.  The
Color BASIC model evaluates the source operands, the BASIC09 model executes the emitted
text up to the RUN events; evaluated arguments are compared by parameter name.
"""
import itertools
import os
import re

from vf.gen import catalogue as K
from vf import core, tool
from vf.b09 import interp as I
from vf.b09 import runtime as R
from vf.b09 import syntax as S
from vf.decb import model as D

LEVEL = "model_checking"

HF = 7.0  # marker value the device model stores in display.hfore

# DEV name -> (procedure, {param: spec}); spec: ("role", default) | "@display" | "@play" | "@pid" | ("const", v) | ("flag", role)
ROLES = {
    "CLS": ("ecb_cls", {"color": ("c", 1.0), "display": "@display"}),
    "PRINT@": ("ecb_at", {"location": ("location", None)}),
    "LOCATE": ("ecb_locate", {"x": ("x", None), "y": ("y", None)}),
    "ATTR": ("ecb_attr", {"f": ("f", None), "b": ("b", None), "bk": ("flag", "B"), "undr": ("flag", "U"), "display": "@display"}),
    "WIDTH": ("_ecb_width", {"width": ("n", None), "display": "@display"}),
    "PALETTE": ("ecb_set_palette", {"pr": ("pr", None), "cc": ("cc", None), "display": "@display"}),
    "RGB": ("ecb_set_palette_rgb", {"display": "@display"}),
    "CMP": ("ecb_set_palette_cmp", {"display": "@display"}),
    "HSCREEN": ("ecb_hscreen", {"n": ("n", 0.0), "display": "@display"}),
    "HCLS": ("ecb_hcls", {"n": ("n", -1.0), "display": "@display"}),
    "HCOLOR": ("ecb_hcolor", {"f": ("f", None), "b": ("b", -1.0), "display": "@display"}),
    "HCIRCLE": ("ecb_hcircle", {"x": ("x", None), "y": ("y", None), "r": ("r", None), "c": ("c", HF), "rt": ("rt", 1.0), "display": "@display"}),
    "HARC": ("ecb_harc", {"x": ("x", None), "y": ("y", None), "r": ("r", None), "c": ("c", HF), "rt": ("rt", None), "sp": ("sp", None), "ep": ("ep", None), "display": "@display"}),
    "HLINE": ("ecb_hline", {"rd": ("rd", None), "x0": ("x0", 0.0), "y0": ("y0", 0.0), "x1": ("x1", None), "y1": ("y1", None), "m": ("m", None), "t": ("t", None), "display": "@display"}),
    "HSET": ("ecb_hset", {"x": ("x", None), "y": ("y", None), "display": "@display"}),
    "HSET3": ("ecb_hset3", {"x": ("x", None), "y": ("y", None), "c": ("c", None), "display": "@display"}),
    "HRESET": ("ecb_hreset", {"x": ("x", None), "y": ("y", None), "display": "@display"}),
    "HPAINT": ("ecb_hpaint", {"x": ("x", None), "y": ("y", None), "c": ("c", HF), "c0": ("c0", HF), "d": "@display"}),
    "HPRINT": ("ecb_hprint", {"x": ("x", None), "y": ("y", None), "txt": ("txt", None), "display": "@display"}),
    "HDRAW": ("ecb_hdraw", {"s": ("s", None), "d": "@display"}),
    "PLAY": ("ecb_play", {"s": ("s", None), "p": "@play"}),
    "HBUFF": ("_ecb_hbuff", {"b": ("b", None), "s": ("s", None), "pid": "@pid", "d": "@display"}),
    "HGET": ("ecb_hget", {"x0": ("x0", None), "y0": ("y0", None), "x1": ("x1", None), "y1": ("y1", None), "b": ("b", None), "p": "@pid", "d": "@display"}),
    "HPUT": ("ecb_hput", {"x0": ("x0", None), "y0": ("y0", None), "x1": ("x1", None), "y1": ("y1", None), "b": ("b", None), "a": ("a", None), "p": "@pid", "d": "@display"}),
    "SET": ("ecb_set", {"x": ("x", None), "y": ("y", None), "c": ("c", None)}),
    "RESET": ("ecb_reset", {"x": ("x", None), "y": ("y", None)}),
    "SOUND": ("ecb_sound", {"f": ("f", None), "d": ("d", None), "v": ("const", 31.0), "o": ("octo", None)}),
}

_lib = {}


def params():
    if not _lib:
        text = open(os.path.join(core.REPO, "coco", "resources", "ecb.b09"), encoding="latin-1").read()
        for p in S.parse(re.sub(r"(?i)STRING<<>>", "STRING", text)):
            names = []
            for st in S.walk(p.body):
                if st.kind == "param":
                    for grp, typ in st.a["groups"]:
                        names += [n.lower() for n, d in grp]
                        if typ and typ[0] == "STRING":
                            for n, d in grp:
                                _sizes[(p.name.lower(), n.lower())] = typ[1] or 32
            _lib[p.name.lower()] = names
    return _lib


_sizes = {}  # (procedure, string parameter) -> declared length: the procedure sees no more of its argument than that


# statement forms: (name, template with {0},{1}.. numeric operand slots and {s} string slot)
FORMS = [
    ("cls0", "CLS"), ("cls", "CLS {0}"), ("print_at", 'PRINT @ {0} , "X"'), ("print_at0", "PRINT @ {0}"), ("locate", "LOCATE {0} , {1}"),
    ("attr", "ATTR {0} , {1}"), ("attr_b", "ATTR {0} , {1} , B"), ("attr_u", "ATTR {0} , {1} , U"), ("attr_bu", "ATTR {0} , {1} , B , U"), ("attr_ub", "ATTR {0} , {1} , U , B"),
    ("width", "WIDTH {0}"), ("palette", "PALETTE {0} , {1}"), ("palette_rgb", "PALETTE RGB"), ("palette_cmp", "PALETTE CMP"), ("rgb", "RGB"), ("cmp", "CMP"),
    ("hscreen0", "HSCREEN"), ("hscreen", "HSCREEN {0}"), ("hcls0", "HCLS"), ("hcls", "HCLS {0}"), ("hcolor1", "HCOLOR {0}"), ("hcolor", "HCOLOR {0} , {1}"),
    ("hcircle", "HCIRCLE ( {0} , {1} ) , {2}"), ("hcircle_c", "HCIRCLE ( {0} , {1} ) , {2} , {3}"), ("hcircle_comma", "HCIRCLE ( {0} , {1} ) , {2} ,"),
    ("hellipse", "HCIRCLE ( {0} , {1} ) , {2} , {3} , {4}"), ("hellipse_nc", "HCIRCLE ( {0} , {1} ) , {2} , , {3}"),
    ("harc", "HCIRCLE ( {0} , {1} ) , {2} , {3} , {4} , {5} , {6}"), ("harc_nc", "HCIRCLE ( {0} , {1} ) , {2} , , {3} , {4} , {5}"),
    ("hline", "HLINE ( {0} , {1} ) - ( {2} , {3} ) , PSET"), ("hline_preset", "HLINE ( {0} , {1} ) - ( {2} , {3} ) , PRESET"),
    ("hline_b", "HLINE ( {0} , {1} ) - ( {2} , {3} ) , PSET , B"), ("hline_bf", "HLINE ( {0} , {1} ) - ( {2} , {3} ) , PRESET , BF"),
    ("hline_rel", "HLINE - ( {0} , {1} ) , PSET"), ("hline_rel_preset", "HLINE - ( {0} , {1} ) , PRESET"), ("hline_rel_b", "HLINE - ( {0} , {1} ) , PSET , B"), ("hline_rel_bf", "HLINE - ( {0} , {1} ) , PRESET , BF"),
    ("hset", "HSET ( {0} , {1} )"), ("hset3", "HSET ( {0} , {1} , {2} )"), ("hreset", "HRESET ( {0} , {1} )"),
    ("hpaint", "HPAINT ( {0} , {1} )"), ("hpaint1", "HPAINT ( {0} , {1} ) , {2}"), ("hpaint2", "HPAINT ( {0} , {1} ) , {2} , {3}"),
    ("hprint", "HPRINT ( {0} , {1} ) , {s}"), ("hdraw", "HDRAW {s}"), ("play", "PLAY {s}"),
    ("hbuff", "HBUFF {0} , {1}"), ("hget", "HGET ( {0} , {1} ) - ( {2} , {3} ) , {4}"),
    ("hput_pset", "HPUT ( {0} , {1} ) - ( {2} , {3} ) , {4} , PSET"), ("hput_preset", "HPUT ( {0} , {1} ) - ( {2} , {3} ) , {4} , PRESET"), ("hput_and", "HPUT ( {0} , {1} ) - ( {2} , {3} ) , {4} , AND"),
    ("hput_or", "HPUT ( {0} , {1} ) - ( {2} , {3} ) , {4} , OR"), ("hput_not", "HPUT ( {0} , {1} ) - ( {2} , {3} ) , {4} , NOT"), ("hput_xor", "HPUT ( {0} , {1} ) - ( {2} , {3} ) , {4} , XOR"),
    ("set", "SET ( {0} , {1} , {2} )"), ("reset", "RESET ( {0} , {1} )"), ("sound", "SOUND {0} , {1}"), ("poke", "POKE {0} , {1}"),
    ("button", "Z = BUTTON( {0} )"), ("button_e", "Z = BUTTON( {0} ) + 1"), ("point", "Z = POINT( {0} , {1} )"), ("point_e", "Z = POINT( {0} , {1} ) * 2"), ("joystk", "Z = JOYSTK( {0} ) + 1"),
    ("inkey", "Z$ = INKEY$"), ("inkey_e", 'Z$ = INKEY$ + "!"'),
]
SHAPES = ["lit", "var", "elem", "sum", "conv", "hex", "neg", "not"]
HEXLITS = ["&H8000", "&H7FFF", "&HFFFF", "&H8001", "&H1F", "&HFF", "&H0"]
SSHAPES = [("lit", '"TXT"'), ("var", "S$"), ("cat", 'S$ + "!"')]


def operand(shape, i):
    val = 11 * (i + 1)
    if shape == "lit":
        return str(val), []
    if shape == "var":
        return f"P{i}", [f"P{i}={val}"]
    if shape == "elem":
        return f"M({i + 1})", [f"M({i + 1})={val}"]
    if shape == "sum":
        return f"P{i} + 1", [f"P{i}={val - 1}"]
    if shape == "hex":
        return HEXLITS[i % len(HEXLITS)], []
    if shape == "neg":  # an operand that begins with a unary operator (an operator node, not an expression node, in the tool's tree)
        return f"- N{i}", [f"N{i}={-val}"]
    if shape == "not":
        return f"NOT N{i}", [f"N{i}={-val - 1}"]
    return f"INT( Q{i} )", [f"Q{i}={val}.5"]


def build(form, tpl, shapes, sshape):
    n = len(re.findall(r"\{\d\}", tpl))
    pre = ['S$="AB"']
    ops = []
    for i in range(n):
        t, setup = operand(shapes[i], i)
        ops.append(t)
        pre += setup
    body = tpl
    for i in range(n):
        body = body.replace("{%d}" % i, ops[i])
    body = body.replace("{s}", sshape)
    return f"10 {':'.join(pre)}\n20 {body}\n"


def run_case(text, opts):
    """-> (decb events, b09 calls, pokes, octo, status/detail)"""
    script = R.Script()
    d = D.run_decb(text, script=R.Script(), horizon=200)
    r = tool.convert(text, **opts)
    if not r.ok:
        return None, None, None, None, ("refused", r.kind)
    try:
        user = I.load_procs(r.text)
    except S.B09SyntaxError as e:
        return d, None, None, None, ("unparsable", str(e))
    procs = {k: v for k, v in R.library_procs().items() if k in R.PURE}
    procs.update(user)
    devices = R.make_devices(script)
    m = I.Machine(procs, devices=devices, strict_init=False, horizon=5000)
    status = ("ok", "")
    try:
        m.run_main(list(user)[0])
    except I.B09Error as e:
        status = ("b09-error", str(e))
    except I.ModelAbort as e:
        status = ("abort:" + e.kind, e.detail)
    octo = None
    env = m.final_env or {}
    pl = env.get("play")
    if pl is not None and isinstance(pl.data[0], dict):
        octo = pl.data[0]["octo"].data[0]
    pokes = [ev for ev in m.trace if ev[0] == "POKE"]
    calls = list(m.calls) + [(ev[1], ev[2]) for ev in m.trace if ev[0] == "RUN"]
    # keep execution order: m.calls already holds every RUN (devices and unknown procedures alike)
    return d, m.calls, pokes, octo, status


def judge(text, opts, has_hbuff):
    d, calls, pokes, octo, status = run_case(text, opts)
    v = []
    if status[0] in ("refused",):
        return [("device-statement-refused", status[1])]
    if status[0] == "unparsable":
        return [("translation-unparsable", status[1])]
    if d["status"] != "ok":
        return []
    if status[0] != "ok":
        sym = {"abort:uninit-tmp": "tmp-read-before-assign", "abort:param": "b09-param-mismatch"}.get(status[0])
        if sym:
            return [(sym, status[1])]
        if status[0] == "b09-error":
            return [("b09-runtime-error", status[1])]
        return []
    P = params()
    devs = [ev for ev in d["trace"] if ev[0] == "DEV"]
    # expected runtime calls in order
    bcalls = [c for c in calls if c[0] not in ("_ecb_start", "ecb_str", "ecb_int", "ecb_val", "_ecb_init_hbuff", "_ecb_input_prefix", "_ecb_input_suffix", "ecb_button", "ecb_joystk", "ecb_point", "inkey")]
    exp_calls = []
    for _, name, vals in devs:
        if name == "POKE":
            continue
        key = name
        if name == "HCIRCLE":
            key = "HARC" if vals.get("sp") is not None or vals.get("ep") is not None else "HCIRCLE"
        if key not in ROLES:
            continue
        proc, spec = ROLES[key]
        exp = {}
        for pname, sp in spec.items():
            if sp == "@display":
                exp[pname] = ("record", "display")
            elif sp == "@play":
                exp[pname] = ("record", "play")
            elif sp == "@pid":
                exp[pname] = "@pid"
            elif sp[0] == "const":
                exp[pname] = sp[1]
            elif sp[0] == "flag":
                exp[pname] = 1.0 if vals.get(sp[1]) else 0.0
            elif sp[0] == "octo":
                exp[pname] = "@octo"
            else:
                role, default = sp
                val = vals.get(role)
                exp[pname] = default if val is None else val
        exp_calls.append((proc, exp))
    if len(bcalls) != len(exp_calls):
        v.append(("device-call-count", f"expected runtime calls {[c[0] for c in exp_calls]}, the translation makes {[c[0] for c in bcalls]}"))
        return v
    for (proc, exp), (bname, bargs) in zip(exp_calls, bcalls):
        if bname != proc:
            v.append(("wrong-procedure", f"expected RUN {proc}, got RUN {bname}"))
            continue
        names = P.get(proc)
        if names is None:
            v.append(("unknown-procedure", proc))
            continue
        if len(bargs) != len(names):
            v.append(("arity-mismatch", f"RUN {proc}: {len(bargs)} arguments for parameters {names}"))
            continue
        for pn, got in zip(names, bargs):
            want = exp.get(pn)
            if want is None and pn not in exp:
                v.append(("role-table-gap", f"{proc}.{pn} is not in the role table"))
                continue
            if want == "@pid":
                continue
            if want == "@octo":
                if got not in (0, 1, 0.0, 1.0):
                    v.append(("operand-differs", f"RUN {proc}: parameter {pn} (octave flag) receives {got!r}"))
                continue
            if got == "UNSPEC" or want is I.UNSPEC:
                continue
            if isinstance(want, tuple):
                g = tuple(got) if isinstance(got, (list, tuple)) else got
                if g != want:
                    v.append(("operand-differs", f"RUN {proc}: parameter {pn} receives {got!r}, expected the {want[1]} record"))
            elif isinstance(want, str):
                size = _sizes.get((proc, pn))
                seen = got[:size] if isinstance(got, str) and size else got
                if seen != want:
                    v.append(("operand-differs", f"RUN {proc}: parameter {pn}" + (f" (declared STRING[{size}])" if size and seen != got else "") + f" receives {seen!r}, expected {want!r}"))
            else:
                try:
                    ok = abs(float(got) - float(want)) < 1e-9
                except (TypeError, ValueError):
                    ok = False
                if not ok:
                    v.append(("operand-differs", f"RUN {proc}: parameter {pn} receives {got!r}, expected {want!r}"))
    # POKE
    dpokes = [ev for ev in devs if ev[1] == "POKE"]
    exp_p = []
    exp_octo = None
    for _, _, vals in dpokes:
        if vals["a"] == 65496:
            exp_octo = 0
        elif vals["a"] == 65497:
            exp_octo = 1
        else:
            exp_p.append((vals["a"], vals["v"]))
    gp = [(a, b) for _, a, b in pokes]
    if len(gp) != len(exp_p) or any(abs(float(x[0]) - float(y[0])) > 1e-9 or abs(float(x[1]) - float(y[1])) > 1e-9 for x, y in zip(gp, exp_p)):
        v.append(("poke-differs", f"POKE events {gp}, expected {exp_p}"))
    if exp_octo is not None and octo != exp_octo:
        v.append(("speed-poke", f"play.octo is {octo!r} after the speed poke, expected {exp_octo}"))
    # device functions: input operands (k-th evaluation in Color BASIC <-> k-th call of the translation)
    seen_n = {}
    for (name, ins) in [c for c in d["calls"] if c[0] in ("ecb_button", "ecb_joystk", "ecb_point", "inkey")]:
        k = seen_n.get(name, 0)
        seen_n[name] = k + 1
        hit = [c for c in calls if c[0] == name]
        if len(hit) <= k:
            v.append(("device-function-lost", f"{name} is evaluated {k + 1} time(s) by Color BASIC but called {len(hit)} time(s) by the translation"))
            continue
        got = hit[k][1][: len(ins)]
        if any(g == "UNSPEC" for g in got):
            continue
        if len(got) != len(ins) or any(abs(float(g) - float(w)) > 1e-9 for g, w in zip(got, ins)):
            v.append(("operand-differs", f"RUN {name} (call {k + 1}): input arguments {got}, expected {ins}"))
    # buffer prologue
    init = any(c[0] == "_ecb_init_hbuff" for c in calls)
    if init != has_hbuff:
        v.append(("hbuff-prologue", f"_ecb_init_hbuff {'emitted' if init else 'missing'} for a program {'with' if has_hbuff else 'without'} HBUFF"))
    return v


def gen(run):
    quick = run.tier == "quick"
    cases = []
    for name, tpl in FORMS:
        n = len(re.findall(r"\{\d\}", tpl))
        combos = [tuple(["lit"] * n)]
        for sh in SHAPES[1:]:
            combos.append(tuple([sh] * n))
            for i in range(n):
                c = ["lit"] * n
                c[i] = sh
                combos.append(tuple(c))
        combos = sorted(set(combos))
        ss = SSHAPES if "{s}" in tpl else [("-", "")]
        for c in combos:
            for sn, st in ss:
                text = build(name, tpl, c, st)
                feats = {"form:" + name}
                if "conv" in c:
                    feats.add("operand-conv")
                if name.startswith("joystk"):
                    feats.add("uses-joystk")
                cases.append({"text": text, "opts": {}, "hbuff": name == "hbuff", "features": feats, "origin": f"{name} {c} {sn}"})
                if set(c) <= {"lit", "var"}:
                    # the same statement with every optional blank removed (HBUFF1,10 / PALETTERGB / SOUND11,22)
                    cases.append({"text": K.crunch(text), "opts": {}, "hbuff": name == "hbuff", "features": feats | {"crunched"}, "origin": f"{name} {c} {sn} crunched"})
        run.states += len(combos) * len(ss)
        run.transitions += len(combos) * len(ss)
    # every form inside control contexts (the operands must reach the runtime from any arm / loop body / statement position)
    ctxs = [("then", "IF P9 = 1 THEN {}"), ("else", "IF P9 = 0 THEN P8 = 1 ELSE {}"), ("elseif-else", "IF P9 = 0 THEN P8 = 1 ELSE IF P9 = 5 THEN P8 = 2 ELSE {}"),
            ("elseif-arm", "IF P9 = 0 THEN P8 = 1 ELSE IF P9 = 1 THEN {} ELSE P8 = 3"), ("nested", "IF P9 = 1 THEN IF P8 = 0 THEN {}"), ("for-body", "FOR I9 = 1 TO 1 : {} : NEXT I9"),
            ("after-colon", "P8 = 2 : {}"), ("before-colon", "{} : P8 = 2")]
    nctx = 0
    for name, tpl in FORMS:
        n = len(re.findall(r"\{\d\}", tpl))
        for sh in ("lit", "conv"):
            base = build(name, tpl, [sh] * n, '"TXT"')
            l10, l20 = base.rstrip("\n").split("\n")
            body = l20[3:]
            for cname, ctpl in ctxs:
                text = l10 + ":P9=1\n20 " + ctpl.replace("{}", body) + "\n"
                feats = {"form:" + name, "ctx:" + cname} | ({"operand-conv"} if sh == "conv" else set()) | ({"uses-joystk"} if name.startswith("joystk") else set())
                cases.append({"text": text, "opts": {}, "hbuff": name == "hbuff", "features": feats, "origin": f"{name} {sh} in {cname}"})
                nctx += 1
    run.states += nctx
    run.transitions += nctx
    # the buffer prologue under every option set: present exactly when the program uses HBUFF
    progs = [("hbuff", "10 HBUFF 1,10\n20 HGET(0,0)-(9,9),1\n30 HPUT(20,20)-(29,29),1,PSET\n", True), ("hbuff-in-then", "10 A=1:IF A=1 THEN HBUFF 2,20\n", True),
             ("hget-only", "10 HGET(0,0)-(9,9),1\n", False), ("no-buffer", "10 CLS 3:HSCREEN 2:HCLS 1\n", False), ("hbuff-in-rem", "10 REM HBUFF 1,10\n20 A$=\"HBUFF\":CLS\n", False)]
    keys = ["add_suffix", "initialize_vars", "filter_unused_linenum", "default_width32", "skip_procedure_headers", "output_dependencies"]
    for pname, text, has in progs:
        for bits in itertools.product([False, True], repeat=len(keys)):
            o = dict(zip(keys, bits))
            if o["output_dependencies"]:
                o["procname"] = "p"
            cases.append({"text": text, "opts": o, "hbuff": has, "features": {"prologue-options", "prog:" + pname}, "origin": f"prologue {pname} {sorted(k for k, v in o.items() if v is True)}", "prologue_only": True})
    run.states += len(progs) * 2 ** len(keys)
    run.transitions += len(progs) * 2 ** len(keys)
    # speed pokes (literal addresses only)
    for a in ("65496", "65497", "&HFFD8", "&HFFD9", "65495", "65498"):
        for val in ("0", "1", "V"):
            cases.append({"text": f"10 V=5\n20 POKE {a},{val}\n", "opts": {}, "hbuff": False, "features": {"form:poke-speed"}, "origin": f"poke {a},{val}"})
    # HPRINT numeric item, options
    cases.append({"text": "10 A=5\n20 HPRINT(1,2),A\n", "opts": {}, "hbuff": False, "features": {"form:hprint", "hprint-numeric"}, "origin": "hprint numeric"})
    # pairs on one line
    pair_forms = [f for f in FORMS if f[0] in ("cls", "locate", "sound", "hcircle_c", "hline_rel_b", "hset3", "hpaint1", "hbuff", "hput_and", "hput_pset", "hput_preset", "hput_xor", "set", "palette", "button_e", "point_e", "hprint", "play", "attr_bu", "hcolor1")]
    if not quick:
        pair_forms = list(FORMS)
    for (n1, t1), (n2, t2) in itertools.product(pair_forms, repeat=2):
        for sh in (SHAPES if quick else ("lit", "conv")):
            k1 = len(re.findall(r"\{\d\}", t1))
            k2 = len(re.findall(r"\{\d\}", t2))
            b1 = build(n1, t1, [sh] * k1, '"TXT"').split("\n")
            b2 = build(n2, t2, [sh] * k2, 'S$')
            # second statement uses operand numbering shifted by 8 so that values are distinct
            t2s = t2
            for i in range(k2 - 1, -1, -1):
                t2s = t2s.replace("{%d}" % i, "{%d}" % (i + 8))
            pre, ops = ['S$="AB"'], {}
            body1, body2 = t1, t2s
            for i in range(k1):
                tt, setup = operand(sh, i)
                body1 = body1.replace("{%d}" % i, tt)
                pre += setup
            for i in range(k2):
                tt, setup = operand(sh, i + 8)
                body2 = body2.replace("{%d}" % (i + 8), tt)
                pre += setup
            body1 = body1.replace("{s}", '"TXT"')
            body2 = body2.replace("{s}", "S$")
            text = f"10 DIM M(20):{':'.join(pre)}\n20 {body1} : {body2}\n"
            cases.append({"text": text, "opts": {}, "hbuff": "hbuff" in (n1, n2), "features": {"pair", "form:" + n1, "form:" + n2} | ({"operand-conv"} if sh == "conv" else set()), "origin": f"pair {n1}+{n2} {sh}"})
    run.states += len(pair_forms) ** 2
    run.transitions += len(pair_forms) ** 2
    return cases


def judge_prologue(text, opts, has_hbuff):
    """textual rule, valid under every option set that keeps the standard prefix: `dim pid` and RUN _ecb_init_hbuff(pid) are in
    the user's procedure exactly when the source uses HBUFF"""
    r = tool.convert(text, **opts)
    if not r.ok:
        return [("device-statement-refused", r.kind)]
    body = r.text.replace("\r\n", "\n").replace("\r", "\n")
    idx = [m.start() for m in re.finditer(r"(?im)^procedure\s", body)]
    if idx:
        body = body[idx[-1]:]
    init = bool(re.search(r"(?im)^\s*(?:\d+\s+)?RUN\s+_ecb_init_hbuff\s*\(\s*pid\s*\)", body))
    dim = bool(re.search(r"(?im)^\s*dim\s+pid\s*:\s*integer", body))
    v = []
    if init != has_hbuff or dim != has_hbuff:
        v.append(("hbuff-prologue", f"options {sorted(k for k, x in opts.items() if x is True)}: RUN _ecb_init_hbuff {'present' if init else 'absent'}, dim pid {'present' if dim else 'absent'} "
                                    f"for a program {'with' if has_hbuff else 'without'} HBUFF"))
    return v


def work(chunk):
    return [judge_prologue(c["text"], c["opts"], c["hbuff"]) if c.get("prologue_only") else judge(c["text"], c["opts"], c["hbuff"]) for c in chunk]


def run(run):
    run.rule = ("every device statement form x optional-operand presence pattern x operand shape (all operands one shape; one operand deviating) + pairs of statements on one line; "
                "distinct = distinct programs; non-trivial = both models ran and >= 1 runtime call was compared")
    run.assumptions = ["role table (operand role -> parameter name, default) from the Extended / Super Extended BASIC manuals (DESIGN.md Appendix B); parameter positions from the live library",
                       "_ecb_start is modelled as storing marker values in the display record (hfore=7) so that 'current foreground colour' defaults are observable"]
    params()
    cases = gen(run)
    i = 0
    decided = 0
    for res in core.pmap(work, cases, chunk=40):
        for verdicts in res:
            c = cases[i]
            i += 1
            run.evaluations += 1
            decided += 1
            if i % 400 == 1:
                run.sample({"program": c["text"], "origin": c["origin"], "verdicts": [x[0] for x in verdicts]})
            for sym, detail in verdicts:
                run.violation(sym, c["features"], {"text": c["text"], "opts": c["opts"], "hbuff": c["hbuff"], "prologue_only": bool(c.get("prologue_only"))}, f"{c['origin']}: {detail}\nsource: {c['text']!r}")
    run.distinct_n = decided


def replay(case):
    if case.get("prologue_only"):
        return {"violations": [list(x) for x in judge_prologue(case["text"], case["opts"], case["hbuff"])]}
    return {"violations": [list(x) for x in judge(case["text"], case["opts"], case["hbuff"])]}
