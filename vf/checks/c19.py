"""C19 Damaged image files are reported, never silently decoded to a broken image.

Fault enumeration: every prefix of a minimal valid file of each format, every header /
control byte x a value alphabet (all 256 values in the thorough tier), appended bytes,
all short byte strings.  Oracle: the decoder terminates and either reports (exception,
non-zero exit, MAX's removal of the output) or leaves a complete image file (payload
exactly what its own header announces / PNG whose pixels index its palette).
"""
from vf import core
from vf.core import Chooser
from vf.img import cases as C
from vf.img import formats as F
from vf.img import tools as T

LEVEL = "fault_enumeration"

ALPHA_Q = [0, 1, 2, 15, 16, 63, 64, 127, 128, 129, 254, 255]


def base_files():
    pal = C.palette(7)
    files = {}
    files["hrs"] = (["-w", "8", "-r", "4"], F.hrs_file(pal, C.body_lin(16, 3, 1)), {"header": range(0, 16), "control": []})
    files["max"] = (["-w", "16"], F.max_file(C.body_lin(2 * 5, 5, 3)), {"header": range(0, 5), "control": []})
    files["maxnews"] = (["-newsroom"], F.newsroom_file(2, 5, C.body_lin(10, 5, 3)), {"header": range(0, 2), "control": []})
    # the same two files with header errors ignored (-i): a damaged file must still be reported or decoded completely
    files["maxi"] = (["-w", "16", "-i"], F.max_file(C.body_lin(2 * 5, 5, 3)), {"header": range(0, 5), "control": []})
    files["maxnewsi"] = (["-newsroom", "-i"], F.newsroom_file(2, 5, C.body_lin(10, 5, 3)), {"header": range(0, 2), "control": []})
    files["pix"] = ([], C.body_lin(32, 7, 1), {"header": [], "control": []})
    body = bytes(((i // 255) * 17 + 1) & 255 for i in range(32000))
    mge = F.mge_rle_file(pal, body, Chooser(()))
    files["mge"] = ([], mge, {"header": range(0, 51), "control": range(51, len(mge), 2)})
    files["mgeraw"] = ([], F.mge_raw_file(pal, C.body_lin(32000, 3, 1)), {"header": range(0, 51), "control": []})
    rb = bytes(((i // 255) * 5 + 2) & 255 for i in range(199 * 160))
    rat = F.rat_file(pal, rb, Chooser(()))
    files["rat"] = ([], rat, {"header": range(0, 19), "control": range(19, len(rat), 3), "control2": range(20, len(rat), 3)})
    cm3 = F.cm3_coded_file(pal, bytes(192 * 160), Chooser(()), False, False)
    ctl = [29] + [30 + 21 * i for i in range(192)]
    files["cm3"] = ([], cm3, {"header": range(0, 29), "control": ctl})
    cm32 = F.cm3_coded_file(pal, bytes(384 * 160), Chooser(()), True, False)
    page2 = 29 + 1 + 21 * 192  # offset of the second page's line-count byte (same layout as page one)
    files["cm3two"] = ([], cm32, {"header": list(range(0, 29)) + [page2], "control": [29, 30, 30 + 21 * 191, page2 + 1, page2 + 1 + 21 * 191]})
    vb = bytes(((i // 80) * 3 + 1) & 255 for i in range(80 * 400))
    vef = F.vef_squashed_file(pal, vb, 0, Chooser(()))
    files["vef"] = ([], vef, {"header": range(0, 18), "control": list(range(18, len(vef), 3)) + list(range(19, len(vef), 3))})
    files["vefraw"] = ([], F.vef_raw_file(pal, C.body_lin(40 * 400, 3, 1), 3), {"header": range(0, 18), "control": []})
    return files


def toolname(k):
    return {"maxnews": "max", "maxi": "max", "maxnewsi": "max", "mgeraw": "mge", "vefraw": "vef", "cm3two": "cm3"}.get(k, k)


_FILES = None


def files_cached():
    global _FILES
    if _FILES is None:
        _FILES = base_files()
    return _FILES


def materialise(f):
    """fault descriptor (fmt, kind, param, features) -> (opts, damaged bytes)"""
    fmt, kind, param, _ = f
    files = files_cached()
    if kind == "size":
        return [], C.body_lin(param, 7, 1)
    opts, data, _pos = files[fmt]
    if kind == "truncate":
        return opts, data[:param]
    if kind in ("header", "control", "control2"):
        p, v = param
        d = bytearray(data)
        d[p] = v
        return opts, bytes(d)
    if kind == "append":
        return opts, data + param
    if kind == "short":
        return opts, param
    raise ValueError(kind)


def gen(run):
    """fault descriptors; the damaged bytes are built in the worker (materialise)"""
    quick = run.tier == "quick"
    alpha = ALPHA_Q if quick else list(range(256))
    faults = []  # (fmt, kind, param, features)
    files = files_cached()
    for fmt, (opts, data, pos) in sorted(files.items()):
        n = len(data)
        # prefixes
        if n > 5000 and quick:
            cuts = sorted(set(list(range(0, 600)) + list(range(n - 400, n)) + list(range(0, n, 160)) + list(range(1, n, 401))))
            run.caps.append(f"{fmt}: quick tier enumerates {len(cuts)} of {n} prefixes (all of the first 600 and last 400, every 160th and every 401st); thorough enumerates all")
        else:
            cuts = range(0, n)
        for cut in cuts:
            faults.append((fmt, "truncate", cut, [fmt, "truncated"]))
        run.states += len(cuts)
        run.transitions += len(cuts)
        # header / control bytes x alphabet
        for kind in ("header", "control", "control2"):
            pp = list(pos.get(kind, []))
            if kind != "header" and quick and len(pp) > 40:
                pp = pp[:20] + pp[-20:]
            elif kind != "header" and len(pp) > 200:
                full = len(pp)
                pp = sorted(set(pp[:60] + pp[-60:] + pp[::7]))
                run.caps.append(f"{fmt}: thorough tier corrupts {len(pp)} of {full} {kind} positions (first 60, last 60, every 7th), each with all 256 values")
            for p in pp:
                for v in alpha:
                    if data[p] == v:
                        continue
                    faults.append((fmt, kind, (p, v), [fmt, "corrupt-" + kind.rstrip("2"), f"{fmt}@{p}" if kind == "header" else "ctl"]))
                run.states += len(alpha)
                run.transitions += len(alpha)
        # appended garbage
        for extra in (b"\x00", b"\xff", b"\x00\x00", b"\x01\x02\x03", b"\x80" * 3):
            faults.append((fmt, "append", extra, [fmt, "appended"]))
            run.states += 1
            run.transitions += 1
    # all short byte strings
    shorts = [b""] + [bytes([a]) for a in range(256)]
    a2 = ALPHA_Q if quick else range(256)
    shorts += [bytes([a, b]) for a in a2 for b in a2]
    for fmt in ("hrs", "max", "maxnews", "maxi", "maxnewsi", "pix", "mge", "rat", "cm3", "vef"):
        for s in shorts:
            faults.append((fmt, "short", s, [fmt, "short-string"]))
        run.states += len(shorts)
        run.transitions += len(shorts)
    # PIX: every size (non-square sizes are damaged files)
    for sz in range(0, 301 if quick else 2049):
        feats = ["pix", "size-sweep"] + (["pix-size-not-square"] if F.pix_expected(bytes(sz)) is None else [])
        faults.append(("pix", "size", sz, feats))
    run.states += 301 if quick else 2049
    run.transitions += 301 if quick else 2049
    return faults


def judge(fmt, opts, data, scratch):
    tool = toolname(fmt)
    oc = T.run_tool(tool, data, opts, scratch)
    if oc.status == "hang":
        return ("hang", "decoder did not terminate within 30 s", oc)
    if oc.status != "ok":
        if tool == "max" and oc.status.startswith("exc"):
            pass
        return (None, "", oc)
    if oc.out is None:
        # documented failure result of MAX (output removed); for other tools "no file and status ok" is silent failure
        if tool == "max":
            return (None, "", oc)
        return ("success-without-output", "status ok but no output file", oc)
    if tool == "vef":
        try:
            F.parse_png(oc.out)
        except F.BadImage as e:
            return ("success-with-broken-png", str(e), oc)
        return (None, "", oc)
    sym, detail = C.self_consistent_pnm(oc.out)
    return (sym, detail, oc)


def work(chunk):
    res = []
    for f in chunk:
        fmt = f[0]
        opts, data = materialise(f)
        sym, detail, oc = judge(fmt, opts, data, work.scratch)
        res.append((sym, detail, oc.status.split(":")[0] if oc.status != "ok" else ("ok" if oc.out is not None else "ok-removed")))
    return res


def refine_features(fmt, data, kind, feats, sym, base):
    """Input-side features used by the known-findings patterns."""
    feats = list(feats)
    tool = toolname(fmt)
    if tool == "max":
        feats.append("max-short-row-read")
    if tool == "mge":
        feats += sorted(F.mge_rle_analysis(data))
    if tool == "rat":
        feats += sorted(F.rat_analysis(data))
    if tool == "cm3":
        feats += sorted(F.cm3_analysis(data))
    if tool == "vef":
        feats += sorted(F.vef_analysis(data))
    if tool == "pix" and F.pix_expected(data) is None and "pix-size-not-square" not in feats:
        feats.append("pix-size-not-square")
    return feats


def run(run):
    run.rule = ("faults = every prefix, every header/control byte x value alphabet, appended bytes and all short strings for a minimal valid file of "
                "each format; distinct = distinct faults (format, kind, position/value); non-trivial = differs from the valid file")
    run.assumptions = ["an exception or non-zero exit escaping start() counts as 'reported'", "MAX reports by removing its output (documented False result)"]
    faults = gen(run)
    work.scratch = run.scratch_dir()
    keys = set()
    i = 0
    for res in core.pmap(work, faults, chunk=24):
        for sym, detail, st in res:
            fmt, kind, param, feats = faults[i]
            i += 1
            run.evaluations += 1
            keys.add(hash((fmt, kind, param)))
            opts = data = None
            if sym or i % 3001 == 1:
                opts, data = materialise(faults[i - 1])
            run.count(f"outcome:{st}")
            run.count(f"faults:{kind}")
            if i % 3001 == 1:
                run.sample({"format": fmt, "opts": opts, "fault": kind, "len": len(data), "head_hex": data[:32].hex(), "outcome": st})
            if sym:
                f2 = refine_features(fmt, data, kind, feats, sym, None)
                run.violation(sym, f2, {"fmt": fmt, "opts": opts, "kind": kind, "data_len": len(data), "data_hex": data.hex() if len(data) <= 6000 else None}, f"{fmt} {kind} len={len(data)}: {detail}")
    run.distinct_n = len(keys)


def replay(case):
    import shutil
    import tempfile
    if not case.get("data_hex") and case.get("data_len"):
        return {"violations": [], "note": "file too large to embed"}
    d = tempfile.mkdtemp(prefix="verif_replay_")
    sym, detail, oc = judge(case["fmt"], case["opts"], bytes.fromhex(case["data_hex"] or ""), d)
    shutil.rmtree(d, ignore_errors=True)
    return {"status": oc.status, "out_len": None if oc.out is None else len(oc.out), "violations": [[sym, detail]] if sym else []}
