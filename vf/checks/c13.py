"""C13 The emitted bundle contains exactly the procedures the program needs.

Space: every runtime-reaching statement singly and in ordered pairs (thorough: triples of
a reduced alphabet) x default string size x procedure names; hostile user text (RUN /
PROCEDURE / placeholder / quote / backslash) in every text position.
Oracle: independent closure over the call graph obtained by *parsing* the shipped
library with the BASIC09 parser; bundle = sorted closure, each once, program last; every
RUN resolves inside the bundle or to an OS-9 module; no placeholder survives; the user
procedure equals the output_dependencies=False text.
"""
import itertools
import os
import re

from vf import core, tool
from vf.b09 import syntax as S
from vf.gen import catalogue as K

LEVEL = "model_checking"
SYSTEM_MODULES = {"gfx", "gfx2", "syscall", "inkey"}

_lib = {}


def library():
    if not _lib:
        text = open(os.path.join(core.REPO, "coco", "resources", "ecb.b09"), encoding="latin-1").read()
        _lib["raw"] = text
        _lib["placeholders"] = len(re.findall(r"(?i)STRING<<>>", text))
        procs = S.parse(re.sub(r"(?i)STRING<<>>", "STRING", text))
        _lib["procs"] = {p.name: p for p in procs}
        graph = {}
        for p in procs:
            graph[p.name] = sorted({s.a["name"] for s in S.walk(p.body) if s.kind == "run"})
        _lib["graph"] = graph
    return _lib


def closure(roots):
    lib = library()
    seen = set()
    stack = list(roots)
    while stack:
        n = stack.pop()
        if n in seen or n not in lib["graph"]:
            continue
        seen.add(n)
        stack.extend(lib["graph"][n])
    return seen


RUNTIME_STMTS = [n for n, s, a in K.CATALOGUE if re.match(r"(print|cls|sound|poke|reset|set|input|line_input|width|locate|attr|cmp|rgb|palette|hscreen|hcls|harc|hellipse|hcircle|hprint|hcolor|hline|hreset|hset|play|hdraw|hbuff|hget|hput|hpaint|num_assign_fn2|num_assign_dev|str_assign_fn2|data_empty|read|num_assign_direct|str_assign_direct|on_err|on_brk|if_then_stmt|num_assign$)", n)]

HOSTILE = ["DON'T PANIC", "IT'S 5 O'CLOCK", "PAGE\x0cBREAK", "A\x0bB", "A\x1cB\x1dC\x1eD", "A\x85B", "\x0c", "RUN ecb_play", "run ecb_sound(1,2)", "procedure zz", ": STRING<<>>", "X: STRING<<>>Y", "\\", "\\ RUN ecb_hdraw", "(* x", "*)"]
POSITIONS = [
    ("strlit", 'A$ = "{}"'),
    ("print", 'PRINT "{}" ; 1'),
    ("data_q", 'DATA "{}" , 2'),
    ("data_u", "DATA {} , 2"),
    ("rem", "REM {}"),
    ("rem_after_stmt", "CLS : REM {}"),
    ("tick_after_stmt", "B = 2 ' {}"),
    ("rem_in_then", "IF B = 1 THEN REM {}"),
    ("tick", "' {}"),
    ("unterminated", 'A$ = "{}'),
    ("rem_quote", 'REM " {}'),
    ("tick_quote", "' \" {}"),
    ("rem_2quote", 'REM " {} "'),
    ("hprint", 'HPRINT ( 1 , 2 ) , "{}"'),
    ("input_prompt", 'INPUT "{}" ; B$'),
]


def gen(run):
    quick = run.tier == "quick"
    cases = []
    by = K.BY_NAME
    singles = [(n,) for n in RUNTIME_STMTS]
    pairs = list(itertools.product(RUNTIME_STMTS, RUNTIME_STMTS)) if not quick else [(a, b) for i, a in enumerate(RUNTIME_STMTS) for j, b in enumerate(RUNTIME_STMTS) if i < j]
    combos = singles + pairs
    run.states += len(combos) + 1
    run.transitions += len(combos)
    for combo in combos:
        text = K.program_for([by[n] for n in combo])
        for sz in ((32, 80) if len(combo) > 1 else (16, 32, 80)):
            for pn in (("prog",) if len(combo) > 1 else ("x", "program", "_a", "a1", "P" * 40, "ecb_at", "zzz", "my-prog")):
                cases.append({"text": text, "size": sz, "procname": pn, "origin": "+".join(combo), "features": []})
    # templates x operand shapes (string literals and hoisted calls sharing one emitted line)
    for name, body, after in K.TEMPLATES:
        sl = K.slots(body)
        defaults = ["7" if x == "n" else '"X"' for x in sl]
        combos = []
        for i, x in enumerate(sl):
            for sn, st in (K.NUM_SHAPES if x == "n" else K.STR_SHAPES):
                sh = list(defaults)
                sh[i] = st
                combos.append((f"slot{i}={sn}", sh))
        for sn_n, st_n in K.NUM_SHAPES:
            for sn_s, st_s in K.STR_SHAPES:
                combos.append((f"all={sn_n}/{sn_s}", [st_n if x == "n" else st_s for x in sl]))
        run.states += 1 + len(combos)
        run.transitions += len(combos)
        seen_t = set()
        for how, sh in combos:
            text = K.template_program(K.fill(body, sh), after)
            if text in seen_t:
                continue
            seen_t.add(text)
            cases.append({"text": text, "size": 32 if len(seen_t) % 2 else 80, "procname": "prog", "origin": f"tpl:{name}:{how}", "features": []})
    # hostile text
    for d in core.cube(run, [("pos", POSITIONS), ("h", HOSTILE), ("with", ['PLAY "C" : B$ = STRING$( 2 , "Q" )', 'PRINT 1']), ("size", [32, 80])]):
        pname, tpl = d["pos"]
        if pname in ("strlit", "print", "data_q", "hprint", "input_prompt", "rem_2quote") and '"' in d["h"]:
            continue
        if pname == "data_u" and ("," in d["h"] or ":" in d["h"] or '"' in d["h"]):
            continue
        line = tpl.replace("{}", d["h"])
        feats = ["hostile", "pos:" + pname]
        if re.search(r"(?i)\bRUN\s+\w+", d["h"]) and pname in ("rem", "tick", "rem_quote", "tick_quote", "rem_2quote", "rem_after_stmt", "tick_after_stmt", "rem_in_then"):
            feats.append("comment-contains-RUN")
        nq = line.count('"')
        if nq % 2 == 1:
            feats.append("user-text-odd-quote")
        if "STRING<<>>" in d["h"]:
            feats.append("user-text-placeholder")
        text = K.program_for([d["with"], line])
        cases.append({"text": text, "size": d["size"], "procname": "prog", "origin": f"hostile:{pname}:{d['h']}", "features": feats, "content": d["h"]})
        if d["size"] == 80:
            # the same with unused labels filtered (remarks then start in the first column) and with pre-initialisation
            cases.append({"text": text, "size": 80, "procname": "prog", "origin": f"hostile-l:{pname}:{d['h']}", "features": feats + ["filter"], "content": d["h"],
                          "extra_opts": {"filter_unused_linenum": True, "initialize_vars": True}})
    return cases


def split_bundle(out):
    """[(name, text)] by procedure headers at line starts."""
    parts = []
    cur = None
    for line in out.split("\n"):
        m = re.match(r"(?i)procedure\s+(\S+)\s*$", line)
        if m:
            cur = [m.group(1), []]
            parts.append(cur)
        if cur is None:
            cur = [None, []]
            parts.append(cur)
        cur[1].append(line)
    return [(n, "\n".join(ls)) for n, ls in parts]


def judge(c):
    v = []
    pn_in = c["procname"]
    extra = c.get("extra_opts") or {}
    r = tool.convert(c["text"], output_dependencies=True, procname=pn_in, default_str_storage=c["size"], **extra)
    r0 = tool.convert(c["text"], output_dependencies=False, default_str_storage=c["size"], **extra)
    if not r.ok or not r0.ok:
        if r.kind != r0.kind:
            v.append(("acceptance-differs", f"with dependencies: {r.kind}; without: {r0.kind}"))
        return v, None
    out = r.text
    parts = split_bundle(out)
    names = [n for n, _ in parts]
    if not parts or parts[0][0] is None:
        v.append(("text-before-first-header", repr(parts[0][1][:80]) if parts else "empty"))
        return v, out
    user_name, user_text = parts[-1]
    lib = library()
    # user procedure = the no-dependency text
    body = user_text.split("\n", 1)[1] if "\n" in user_text else ""
    if body.rstrip("\n") != r0.text.rstrip("\n"):
        a, b = body.rstrip("\n").split("\n"), r0.text.rstrip("\n").split("\n")
        k = next((i for i in range(min(len(a), len(b))) if a[i] != b[i]), min(len(a), len(b)))
        v.append(("user-procedure-altered", f"line {k}: bundle has {a[k:k+1]} but plain output has {b[k:k+1]}"))
    # the user's literal / DATA item / remark text is in the user's procedure, character for character
    if c.get("content") and c["content"] not in body:
        v.append(("user-text-changed", f"the source text {c['content']!r} does not appear verbatim in the user's procedure"))
    # which RUNs does the user procedure make? parse the *plain* output (independent of the bundle text)
    try:
        uprocs = S.parse(r0.text)
        uruns = sorted({s.a["name"] for p in uprocs for s in S.walk(p.body) if s.kind == "run"})
    except S.B09SyntaxError:
        return v, out  # not C13's business (C07)
    expect = sorted(closure(uruns))
    got = names[:-1]
    if user_name in lib["graph"] and user_name in closure(uruns):
        pass
    if got != expect:
        missing = [n for n in expect if n not in got]
        extra = [n for n in got if n not in expect]
        dup = sorted({n for n in got if got.count(n) > 1})
        if missing:
            v.append(("procedure-missing", f"reachable but not bundled: {missing}"))
        if extra:
            v.append(("procedure-unreachable", f"bundled but not reachable: {extra}"))
        if dup:
            v.append(("procedure-duplicated", f"{dup}"))
        if not (missing or extra or dup):
            v.append(("bundle-order", f"order {got[:6]}... expected sorted {expect[:6]}..."))
    # every RUN resolves
    try:
        bprocs = S.parse(out)
        have = {p.name for p in bprocs}
        for p in bprocs:
            for s in S.walk(p.body):
                if s.kind == "run" and s.a["name"] not in have and s.a["name"].lower() not in SYSTEM_MODULES:
                    v.append(("unresolved-run", f"procedure {p.name} RUNs {s.a['name']} which is neither bundled nor an OS-9 module"))
                    break
    except S.B09SyntaxError as e:
        if "<<>>" in str(e) or "'<'" in str(e):
            pass
        else:
            v.append(("bundle-does-not-parse", str(e)))
    # placeholders (library part only; the user's text is compared above)
    libpart = "\n".join(t for _, t in parts[:-1])
    if "<<>>" in libpart:
        v.append(("placeholder-survives", libpart[max(0, libpart.find("<<>>") - 30): libpart.find("<<>>") + 10]))
    want = "STRING" if c["size"] == 32 else f"STRING[{c['size']}]"
    for n, t in parts[:-1]:
        if n not in lib["procs"]:
            continue
        raw = re.search(r"(?im)^procedure\s+%s\s*$" % re.escape(n), lib["raw"])
        # count placeholder sites of this procedure in the raw library
        start = raw.end()
        nxt = re.search(r"(?im)^procedure\s+\S+\s*$", lib["raw"][start:])
        seg = lib["raw"][start: start + nxt.start()] if nxt else lib["raw"][start:]
        nsites = len(re.findall(r"(?i):\s*STRING<<>>", seg))
        if nsites:
            found = len(re.findall(r"(?i):\s*" + re.escape(want) + r"(?![\[\w<])", t))
            if found < nsites:
                v.append(("placeholder-wrong-size", f"procedure {n}: {nsites} placeholder sites, {found} read ': {want}'"))
    if user_name != (pn_in if re.fullmatch(r"[a-zA-Z0-9_-]+", pn_in) else "program"):
        v.append(("wrong-procedure-name", f"{user_name!r} for requested {pn_in!r}"))
    return v, out


def placeholder_verdicts(out, size):
    """every placeholder site of every bundled library procedure reads ': STRING[size]' (': STRING' for 32)"""
    v = []
    lib = library()
    parts = split_bundle(out)
    if "<<>>" in "\n".join(t for _, t in parts[:-1]):
        v.append(("placeholder-survives", "a string-size placeholder is left in the bundled library"))
    want = "STRING" if size == 32 else f"STRING[{size}]"
    for n, t in parts[:-1]:
        if n not in lib["procs"]:
            continue
        raw = re.search(r"(?im)^procedure\s+%s\s*$" % re.escape(n), lib["raw"])
        start = raw.end()
        nxt = re.search(r"(?im)^procedure\s+\S+\s*$", lib["raw"][start:])
        seg = lib["raw"][start: start + nxt.start()] if nxt else lib["raw"][start:]
        nsites = len(re.findall(r"(?i):\s*STRING<<>>", seg))
        if nsites:
            found = len(re.findall(r"(?i):\s*" + re.escape(want) + r"(?![\[\w<])", t))
            if found < nsites:
                v.append(("placeholder-wrong-size", f"procedure {n}: {nsites} placeholder sites, {found} read ': {want}'"))
    return v


def library_size_chain():
    """a string that a bundled procedure holds at the requested size must stay at that size when it is handed on: the callee's
    parameter has to carry the placeholder too (otherwise the requested size stops half-way down the call chain)"""
    import os
    text = open(os.path.join(core.REPO, "coco", "resources", "ecb.b09"), encoding="latin-1").read()
    MARK = 29999
    procs = S.parse(re.sub(r"(?i)STRING<<>>", f"STRING[{MARK}]", text))
    params, sized = {}, {}
    for p in procs:
        pl, sz = [], set()
        for st in S.walk(p.body):
            if st.kind in ("param", "dim"):
                for grp, typ in st.a["groups"]:
                    for nm, dims in grp:
                        if st.kind == "param":
                            pl.append((nm.lower(), typ))
                        if typ and typ[0] == "STRING" and typ[1] == MARK:
                            sz.add(nm.lower())
        params[p.name.lower()], sized[p.name.lower()] = pl, sz
    v = []
    n = 0
    for p in procs:
        for st in S.walk(p.body):
            if st.kind != "run" or st.a["name"].lower() not in params:
                continue
            callee = st.a["name"].lower()
            for i, arg in enumerate(st.a["args"]):
                n += 1
                if arg[0] == "var" and not arg[2] and not arg[3] and arg[1].lower() in sized[p.name.lower()] and i < len(params[callee]):
                    pn, typ = params[callee][i]
                    if not (typ and typ[0] == "STRING" and typ[1] == MARK):
                        v.append(("placeholder-chain-broken", p.name, f"{p.name} hands its string {arg[1]} (requested size) to {callee}, whose parameter {pn} is declared {typ} without the size placeholder"))
    return n, v


def cli_cases(run, scratch):
    """the same bundle through the file entry points (convert_file / the command line), where the size comes from -s"""
    import importlib
    import io
    import sys
    m = importlib.import_module("coco.decb_to_b09")
    d = os.path.join(scratch, "cli13")
    os.makedirs(d, exist_ok=True)
    text = '10 A$=STRING$(40,"*"):PLAY "CDE":HDRAW "U1"\n20 PRINT INSTR(1,A$,"*");HEX$(1)\n'
    out = []
    for size in (1, 16, 31, 32, 33, 80, 255, 256, 1000, 32767):
        for extra in ([], ["-l"], ["-z", "-w"]):
            run.states += 1
            run.transitions += 1
            run.evaluations += 1
            inp, outp = os.path.join(d, "prog.bas"), os.path.join(d, "prog.b09")
            with open(inp, "w") as f:
                f.write(text)
            old = sys.stdout, sys.stderr
            err = None
            try:
                sys.stdout, sys.stderr = io.StringIO(), io.StringIO()
                try:
                    m.start(["-s", str(size)] + extra + [inp, outp])
                except SystemExit as e:
                    err = f"SystemExit({e.code})"
                except Exception as e:  # noqa
                    err = type(e).__name__
            finally:
                sys.stdout, sys.stderr = old
            if err:
                continue
            got = open(outp, "r", newline="").read().replace("\r\n", "\n").replace("\r", "\n")
            for sym, detail in placeholder_verdicts(got, size):
                out.append((sym, f"decb_to_b09 -s {size} {' '.join(extra)}: {detail}", size))
    return out


def work(chunk):
    return [judge(c)[0] for c in chunk]


def run(run):
    run.rule = ("programs = every runtime-reaching catalogue statement singly (x 8 procedure names) and in pairs, x string size {32,80}; hostile strings x 12 text positions; "
                "distinct = distinct (text, size, procname); non-trivial = bundle contains >= 1 library procedure")
    run.assumptions = ["call graph = RUN statements found by parsing ecb.b09 with vf/b09/syntax.py", "OS-9 system modules: gfx, gfx2, syscall, inkey"]
    library()
    cases = gen(run)
    i = 0
    keys = set()
    for res in core.pmap(work, cases, chunk=40):
        for verdicts in res:
            c = cases[i]
            i += 1
            run.evaluations += 2
            keys.add(hash((c["text"], c["size"], c["procname"])))
            if i % 1500 == 1:
                run.sample({"text": c["text"], "size": c["size"], "procname": c["procname"], "verdicts": [x[0] for x in verdicts]})
            for sym, detail in verdicts:
                feats = set(c["features"])
                if c["procname"] in library()["graph"]:
                    feats.add("procname-shadows-library")
                run.violation(sym, feats, {k: c.get(k) for k in ("text", "size", "procname", "origin", "content", "extra_opts")}, f"{c['origin']} size={c['size']} procname={c['procname']}: {detail}")
    nchain, vchain = library_size_chain()
    run.states += nchain
    run.transitions += nchain
    run.evaluations += nchain
    for sym, pname, detail in vchain:
        run.violation(sym, {"library", "proc:" + pname.lower()}, {"library_chain": pname}, detail)
    for sym, detail, size in cli_cases(run, run.scratch_dir()):
        run.violation(sym, {"cli", "storage:%d" % size}, {"cli": True, "size": size}, detail)
    run.distinct_n = len(keys)
    run.count("library_procedures", len(library()["graph"]))
    run.count("library_placeholder_sites", library()["placeholders"])


def replay(case):
    v, out = judge({"text": case["text"], "size": case["size"], "procname": case["procname"], "features": [], "content": case.get("content"), "extra_opts": case.get("extra_opts")})
    return {"violations": [list(x) for x in v]}
