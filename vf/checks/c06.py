"""C06 Every jump lands on the line it names; label filtering never breaks a target.

Space: programs of n <= 3 (4 in thorough) lines over line numbers {0,10,20,30} (+ a last
line numbered 32699/32700/40000); every line carries a marker and at most d lines carry
one reference-bearing construct (all constructs x all targets incl. self, line 0 and a
missing line); x filter_unused_linenum x add_suffix.
Oracle: the generator knows the reference graph -> expected refusal or expected labels,
jump targets, marker order and dispatcher routing, checked on the parsed output.
"""
import itertools
import re

from vf import core, tool
from vf.b09 import syntax as S

LEVEL = "model_checking"
MISSING = 99


def constructs(T):
    """[(text, refs, kind)] for a target domain T."""
    out = [("", (), "none")]
    for t in T:
        out.append((f"GOTO {t}", (t,), "goto"))
        out.append((f"GOSUB {t}", (t,), "gosub"))
        out.append((f"IF A THEN {t}", (t,), "if-then-line"))
        out.append((f'IF A=1 THEN PRINT "X" ELSE {t}', (t,), "if-else-line"))
        out.append((f'IF A=1 THEN PRINT "X" ELSE IF B=1 THEN {t}', (t,), "elseif-arm-noelse"))
        out.append((f"ON ERR GOTO {t}", (t,), "on-err"))
        out.append((f"ON BRK GOTO {t}", (t,), "on-brk"))
        out.append((f"ON A GOSUB {t}", (t,), "on-gosub1"))
    for t, u in itertools.product(T, T):
        out.append((f"IF A=1 THEN {t} ELSE {u}", (t, u), "if-then-else-lines"))
        out.append((f"ON A GOTO {t},{u}", (t, u), "on-goto2"))
        out.append((f"IF A=1 THEN IF B=1 THEN {t} ELSE {u}", (t, u), "nested-if"))
        out.append((f'IF A=1 THEN PRINT "X" ELSE IF B=1 THEN {t} ELSE {u}', (t, u), "elseif-else"))
        out.append((f"IF A=1 THEN {t} ELSE IF B=1 THEN {u} ELSE {t}", (t, u, t), "elseif-chain-lines"))
        out.append((f"ON A GOSUB {t},{u},{t}", (t, u, t), "on-gosub3"))
        out.append((f'IF A=1 THEN GOSUB {t}:PRINT "Y" ELSE GOTO {u}', (t, u), "if-stmts-else"))
    return out


def gen(run):
    quick = run.tier == "quick"
    nmax = 3 if quick else 4
    dmax = 2
    cases = []
    numsets = []
    base = [0, 10, 20, 30]
    for n in range(1, nmax + 1):
        for combo in itertools.combinations(base, n):
            numsets.append(list(combo))
    for big in (32699, 32700, 40000):
        numsets.append([10, big])
        numsets.append([0, 20, big])
    if quick:
        numsets = [ns for ns in numsets if len(ns) < 3 or ns in ([0, 10, 20], [10, 20, 30], [0, 20, 32699], [0, 20, 32700], [0, 20, 40000])]
    for nums in numsets:
        T = list(nums) + [MISSING]
        if 0 not in T:
            T.append(0)  # reference to a line 0 that does not exist
        cons = constructs(T)
        single = [c for c in cons if len(c[1]) <= 1]
        n = len(nums)
        for k in range(0, dmax + 1):
            for pos in itertools.combinations(range(n), k):
                if k <= 1:
                    pools = [cons[1:]] * k
                elif quick:
                    T2 = {nums[0], nums[-1], MISSING}
                    small = [c for c in single[1:] if set(c[1]) <= T2]
                    pools = [small, small]
                else:
                    pools = [cons[1:], single[1:]]
                total = 0
                for choice in itertools.product(*pools):
                    total += 1
                    lines = []
                    refs = []
                    kinds = []
                    for i, num in enumerate(nums):
                        c = choice[pos.index(i)] if i in pos else cons[0]
                        body = f'PRINT "M{num}"' + (":" + c[0] if c[0] else "")
                        lines.append(f"{num} {body}")
                        refs += list(c[1])
                        kinds.append(c[2])
                    cases.append({"nums": nums, "text": "\n".join(lines) + "\n", "refs": refs, "kinds": kinds})
                run.states += total
                run.transitions += total
    return cases


def expected(c):
    nums, refs, kinds = c["nums"], c["refs"], c["kinds"]
    reasons = []
    if any(n > 32699 for n in nums):
        reasons.append("refused:linenum")
    if any(r not in nums for r in refs):
        reasons.append("refused:compiler")
    if kinds.count("on-err") > 1 or kinds.count("on-brk") > 1:
        reasons.append("refused:compiler")
    return reasons


def group_lines(text):
    """physical lines -> [(label or None, text)]"""
    out = []
    for ln in text.split("\n"):
        m = re.match(r"\s*(\d+)\s(.*)$", ln)
        if m:
            out.append((int(m.group(1)), m.group(2)))
        else:
            out.append((None, ln))
    return out


def judge(c, filt, suffix):
    v = []
    r = tool.convert(c["text"], filter_unused_linenum=filt, add_suffix=suffix, add_standard_prefix=False)
    exp = expected(c)
    if exp:
        if r.ok:
            v.append(("should-refuse", f"expected {sorted(set(exp))} but the program was converted"))
        elif r.kind not in exp:
            v.append(("wrong-refusal", f"expected one of {sorted(set(exp))}, got {r.kind}"))
        return v
    if not r.ok:
        v.append(("should-convert", f"valid program refused: {r.kind} {r.detail}"))
        return v
    out = r.text
    try:
        procs = S.parse(out)
    except S.B09SyntaxError as e:
        return v  # C07's business
    body = procs[0].body if procs else []
    stmts = list(S.walk(body))
    labels = [s.label for s in stmts if s.label is not None] + [s.a.get("next_label") for s in stmts if s.kind == "for" and s.a.get("next_label")]
    refs = set(c["refs"])
    nums = c["nums"]
    has_handler = any(k in ("on-err", "on-brk") for k in c["kinds"])
    # label multiset
    want = set(refs) if filt else {n for n in nums if not (n == 0 and 0 not in refs)}
    user_labels = [l for l in labels if l != 32700]
    for l in set(user_labels):
        if user_labels.count(l) > 1:
            v.append(("duplicate-label", f"label {l} appears {user_labels.count(l)} times"))
    if set(user_labels) != want:
        miss = sorted(want - set(user_labels))
        extra = sorted(set(user_labels) - want)
        if miss:
            v.append(("label-missing", f"filter={filt}: labels {miss} should be present (referenced: {sorted(refs)})"))
        if extra:
            v.append(("label-not-removed", f"filter={filt}: labels {extra} should have been removed (referenced: {sorted(refs)})"))
    # each label sits on the line that came from its source line: the labelled physical line holds the marker
    phys = group_lines(out)
    for lab, txt in phys:
        if lab is not None and lab != 32700 and f'"M{lab}"' not in txt:
            v.append(("label-on-wrong-line", f"label {lab} is on {txt!r}"))
    # markers all present, in order
    marks = re.findall(r'"M(\d+)"', out)
    if [int(m) for m in marks] != nums:
        v.append(("statement-lost-or-reordered", f"markers {marks} expected {nums}"))
    # every jump target exists
    targets = []
    for s in stmts:
        if s.kind in ("goto", "gosub", "ifgoto"):
            targets.append(s.a["target"])
        elif s.kind == "on":
            targets += s.a["targets"]
        elif s.kind == "onerror" and s.a["target"] is not None:
            targets.append(s.a["target"])
    for t in targets:
        if t == 32700 and not suffix:
            continue  # add_suffix=False documents that the dispatcher lines are not emitted
        if t not in labels:
            v.append(("dangling-jump", f"jump to {t} but labels are {labels}"))
            break
    # the jumps of the source survive with the same targets (multiset of user targets)
    out_user_targets = sorted(t for t in targets if t != 32700)
    src_targets = sorted(r for r, k in zip(c["refs"], expand_kinds(c)) if k not in ("on-err", "on-brk"))
    disp_targets = []
    if has_handler and suffix:
        # dispatcher statements are the ones at/after label 32700
        idx = next((i for i, s in enumerate(body) if s.label == 32700), None)
        if idx is None:
            v.append(("dispatcher-missing", "a handler was requested but no line 32700 exists"))
        else:
            if labels.count(32700) != 1:
                v.append(("dispatcher-duplicated", f"{labels.count(32700)} lines labelled 32700"))
            disp = body[idx:]
            err_t = next((r for r, k in zip(c["refs"], expand_kinds(c)) if k == "on-err"), None)
            brk_t = next((r for r, k in zip(c["refs"], expand_kinds(c)) if k == "on-brk"), None)
            for code, want_t in ((2, brk_t if brk_t is not None else err_t), (7, err_t), (216, err_t)):
                got = run_dispatcher(disp, code)
                if got == "bad-source":
                    v.append(("dispatcher-error-source", "the dispatcher does not read the error number from ERR"))
                    break
                if got != want_t:
                    v.append(("dispatcher-routing", f"error {code}: dispatcher goes to {got}, expected {want_t} (ON ERR -> {err_t}, ON BRK -> {brk_t})"))
                    break
            for s in S.walk(disp):
                if s.kind in ("goto", "ifgoto"):
                    disp_targets.append(s.a["target"])
    elif 32700 in labels:
        v.append(("dispatcher-unexpected", "line 32700 present without a handler / with add_suffix off"))
    if has_handler and not suffix and 32700 in [t for t in targets]:
        pass  # ON ERROR GOTO 32700 without suffix: dangling reported above
    rest = list(out_user_targets)
    for t in disp_targets:
        if t in rest:
            rest.remove(t)
    if rest != src_targets:
        v.append(("jump-targets-changed", f"targets in output {rest} != targets in source {src_targets}"))
    return v


def expand_kinds(c):
    """kind per reference (parallel to c['refs'])."""
    out = []
    arity = {"if-then-else-lines": 2, "on-goto2": 2, "nested-if": 2, "elseif-else": 2, "elseif-chain-lines": 3, "on-gosub3": 3, "if-stmts-else": 2, "none": 0}
    for k in c["kinds"]:
        out += [k] * arity.get(k, 1)
    return out


def run_dispatcher(stmts, code):
    """Interpret the tiny dispatcher: ERNO := <src> ; IF ERNO = 2 THEN n ; GOTO m"""
    env = {}
    for s in stmts:
        if s.kind == "assign":
            e = s.a["expr"]
            if e[0] == "call" and e[1] == "ERR":
                val = code
            elif e[0] == "var" and e[1].lower() == "errnum":
                val = code  # routing is still checked with the injected code; the source itself is a known finding
                env["__bad_source__"] = True
            else:
                return "bad-source"
            env[s.a["target"][1].upper()] = val
        elif s.kind == "ifgoto":
            cnd = s.a["cond"]
            if cnd[0] == "bin" and cnd[1] == "=" and cnd[2][0] == "var" and cnd[3][0] == "num":
                if env.get(cnd[2][1].upper()) == cnd[3][1]:
                    return s.a["target"]
            else:
                return "?"
        elif s.kind == "goto":
            return s.a["target"]
    return None


def dispatcher_source_ok(text):
    return re.search(r"(?i)ERNO\s*:=\s*ERR\b", text) is not None


def work(chunk):
    res = []
    for c in chunk:
        row = []
        for filt in (False, True):
            for suffix in (True, False):
                row.append(judge(c, filt, suffix))
        res.append(row)
    return res


def library_jumps():
    """Every bundled procedure of the live ecb.b09 (they are part of every emitted program that outputs its dependencies):
    each line number a GOTO / GOSUB / ON..GOTO / ON ERROR GOTO / THEN <n> mentions must label a line of the same procedure."""
    import os
    text = open(os.path.join(core.REPO, "coco", "resources", "ecb.b09"), encoding="latin-1").read()
    v = []
    n = 0
    for p in S.parse(re.sub(r"(?i)STRING<<>>", "STRING", text)):
        stmts = list(S.walk(p.body))
        labels = [s.label for s in stmts if s.label is not None] + [s.a.get("next_label") for s in stmts if s.kind == "for" and s.a.get("next_label")]
        targets = []
        for s in stmts:
            if s.kind in ("goto", "gosub", "ifgoto"):
                targets.append(s.a["target"])
            elif s.kind == "on":
                targets += s.a["targets"]
            elif s.kind == "onerror" and s.a["target"] is not None:
                targets.append(s.a["target"])
        n += 1
        for l in set(labels):
            if labels.count(l) > 1:
                v.append(("duplicate-label", p.name, f"bundled procedure {p.name}: label {l} appears {labels.count(l)} times"))
        for t in targets:
            if t not in labels:
                v.append(("dangling-jump", p.name, f"bundled procedure {p.name}: jump to {t} but its labels are {sorted(set(labels))}"))
    return n, v


def run(run):
    run.rule = ("programs = line-number sets x at most 2 reference-bearing constructs x all targets (defined, self, 0, missing) x {filter} x {add_suffix}; "
                "distinct = distinct source texts; non-trivial = contains >= 1 reference")
    run.assumptions = ["BASIC09's error function is ERR (token table of the BASIC09 binary); 'errnum' is an ordinary undeclared variable"]
    nlib, vlib = library_jumps()
    run.states += nlib
    run.transitions += nlib
    run.evaluations += nlib
    run.count("library_procedures", nlib)
    for sym, pname, detail in vlib:
        run.violation(sym, {"library", "proc:" + pname}, {"library": pname}, detail)
    cases = gen(run)
    i = 0
    nontriv = 0
    errnum_seen = 0
    for res in core.pmap(work, cases, chunk=60):
        for row in res:
            c = cases[i]
            i += 1
            if c["refs"]:
                nontriv += 1
            if i % 9000 == 1:
                run.sample({"text": c["text"], "refs": c["refs"], "expected": expected(c) or "convert"})
            for (filt, suffix), verdicts in zip([(False, True), (False, False), (True, True), (True, False)], row):
                run.evaluations += 1
                for sym, detail in verdicts:
                    feats = set(c["kinds"]) - {"none"}
                    feats.add("filter" if filt else "nofilter")
                    feats.add("suffix" if suffix else "nosuffix")
                    if any(k in ("on-err", "on-brk") for k in c["kinds"]):
                        feats.add("handler")
                    run.violation(sym, feats, {"text": c["text"], "filter": filt, "suffix": suffix, "refs": c["refs"], "kinds": c["kinds"], "nums": c["nums"]},
                                  f"filter={filt} add_suffix={suffix}: {detail}\nsource: {c['text']!r}")
    # dispatcher error source (reported once per run as a finding of its own)
    r = tool.convert("10 ON ERR GOTO 20\n20 END\n", add_standard_prefix=False)
    if r.ok and not dispatcher_source_ok(r.text):
        run.violation("dispatcher-error-source", {"handler", "dispatcher-reads-errnum"}, {"text": "10 ON ERR GOTO 20\n20 END\n", "filter": False, "suffix": True, "refs": [20], "kinds": ["on-err", "none"], "nums": [10, 20]},
                      "the dispatcher line reads the error number from the identifier 'errnum', which is not a BASIC09 word (ERR is); it is never assigned, so ERNO is always 0")
    run.distinct_n = nontriv


def replay(case):
    if case.get("library"):
        n, v = library_jumps()
        return {"violations": [list(x) for x in v if x[1] == case["library"]]}
    v = judge(case, case["filter"], case["suffix"])
    return {"violations": [list(x) for x in v]}
