"""C02 Control flow of the translated program follows the source program.

Space: control-flow skeletons: 3 program lines (4 in thorough) of 1-2 statements; every
statement is a unique marker PRINT or one of ~35 control constructs (IF/THEN/ELSE with line
or statement branches, ELSE-IF chains, nested IF, FOR/NEXT in all NEXT spellings and
nestings, GOTO, GOSUB/RETURN, ON..GOTO/GOSUB, END, STOP) with every target; at most c
constructs per program (c=1 complete, c=2 with a reduced second menu in quick); x 5
input vectors (A,B) x {filter_unused_linenum} x {initialize_vars}.
Oracle: both reference interpreters under step horizons; PRINT traces, stop kind and
final stores must be equal; DECB terminating while the translation reaches its horizon
is `b09-nontermination`.
"""
import itertools

from vf import core, sem

LEVEL = "model_checking"

INPUTS = [(0, 0), (1, 0), (1, 2), (2, 1), (3, 3)]
OPTSETS = [{}, {"filter_unused_linenum": True}, {"initialize_vars": True}, {"filter_unused_linenum": True, "initialize_vars": True}]

# construct templates: {t} {u} jump targets, {m} fresh marker; 'next' = text prepended to the following line
MENU = [
    ("goto", "GOTO {t}", None, set()),
    ("gosub", "GOSUB 100", None, set()),
    ("on-goto2", "ON A GOTO {t},{u}", None, set()),
    ("on-goto1", "ON B GOTO {t}", None, set()),
    ("on-gosub2", "ON A GOSUB 100,110", None, set()),
    ("on-goto3", "ON A GOTO {t},{u},{t}", None, set()),
    ("if-line", "IF A=1 THEN {t}", None, set()),
    ("if-num", "IF A THEN {m}", None, set()),
    ("if-2stmts", "IF A>B THEN {m}:{m}", None, set()),
    ("if-else", "IF A=1 THEN {m} ELSE {m}", None, set()),
    ("if-else-lines", "IF A=1 THEN {t} ELSE {u}", None, set()),
    ("if-else-line", "IF A=1 THEN {m} ELSE {t}", None, set()),
    ("if-goto-else", "IF A=1 THEN {m}:GOTO {t} ELSE {m}", None, set()),
    ("elseif-else", "IF A=1 THEN {m} ELSE IF A=2 THEN {m} ELSE {m}", None, set()),
    ("elseif-noelse", "IF A=1 THEN {m} ELSE IF A=2 THEN {m}", None, {"elseif-without-else"}),
    ("elseif-lines", "IF A=1 THEN {t} ELSE IF B=1 THEN {u} ELSE {m}", None, set()),
    ("nested-if", "IF A=1 THEN IF B=2 THEN {m} ELSE {m}", None, set()),
    ("nested-if-else", "IF A>0 THEN IF B>0 THEN {m} ELSE {m}:{m}", None, set()),
    ("elseif3", "IF A=1 THEN {m} ELSE IF B=2 THEN {m} ELSE IF B=1 THEN {m} ELSE {m}", None, set()),
    ("elseif3-noelse", "IF A=1 THEN {m} ELSE IF B=2 THEN {m} ELSE IF B=1 THEN {m}", None, {"elseif-without-else"}),
    ("if-gosub", "IF A>0 THEN GOSUB 100:{m}", None, set()),
    ("if-else-gosub", "IF A=1 THEN {m} ELSE GOSUB 110:{m}", None, set()),
    ("for", "FOR I=1 TO 2:{m}:NEXT", None, set()),
    ("for-var", "FOR I=1 TO A:{m}:NEXT I", None, {"for-range-from-input"}),
    ("for-down", "FOR I=3 TO 1 STEP -1:{m}:NEXT", None, set()),
    ("for-step2", "FOR I=1 TO 5 STEP 2:{m}:NEXT I", None, set()),
    ("for-nest-list", "FOR I=1 TO 2:FOR J=1 TO 2:{m}:NEXT J,I", None, set()),
    ("for-nest-bare", "FOR I=1 TO 2:FOR J=1 TO 2:{m}:NEXT:NEXT", None, set()),
    ("for-nest-bare-ji", "FOR J=1 TO 2:FOR I=1 TO 2:{m}:NEXT:NEXT", None, set()),
    ("for-nest-mixed", "FOR I=1 TO 2:FOR J=1 TO 2:{m}:NEXT J:NEXT", None, set()),
    ("for-nest3-list-bare", "FOR I=1 TO 2:FOR J=1 TO 2:FOR K=1 TO 2:{m}:NEXT K,J:{m}:NEXT", None, set()),
    ("for-nest3-bare", "FOR I=1 TO 2:FOR J=1 TO 2:FOR K=1 TO 2:{m}:NEXT:{m}:NEXT:{m}:NEXT", None, set()),
    ("for-nest3-mixed", "FOR I=1 TO 2:FOR J=1 TO 2:FOR K=1 TO 2:{m}:NEXT K:NEXT:{m}:NEXT I", None, set()),
    ("for-nest3-list3", "FOR I=1 TO 2:FOR J=1 TO 2:FOR K=1 TO 2:{m}:NEXT K,J,I", None, set()),
    ("for-nest3-bare-list", "FOR I=1 TO 2:FOR J=1 TO 2:FOR K=1 TO 2:{m}:NEXT:NEXT J,I", None, set()),
    ("for-seq-bare", "FOR I=1 TO 2:{m}:NEXT:FOR J=1 TO 2:{m}:NEXT", None, set()),
    ("for-nest-list-then-for", "FOR I=1 TO 2:FOR J=1 TO 2:{m}:NEXT J,I:FOR K=1 TO 2:{m}:NEXT", None, set()),
    ("for-multiline", "FOR I=1 TO 2", "NEXT:", set()),
    ("for-multiline-var", "FOR I=1 TO 2", "NEXT I:", set()),
    ("for-if-exit", "FOR I=1 TO 3:IF I=A THEN {t}", "NEXT:", set()),
    ("for-empty", "FOR I=2 TO 1:{m}:NEXT", None, {"for-empty-range"}),
    # control constructs whose selector / condition / bound needs a hoisted runtime call, right after the statement that sets its operand
    ("on-gosub-int", "X=A+.5:ON INT(X) GOSUB 100,110", None, set()),
    ("on-goto-int", "X=B+.5:ON INT(X) GOTO {t},{u}", None, set()),
    ("if-int", "X=A+.5:IF INT(X)=1 THEN {m}", None, set()),
    ("if-int-line", "X=A+.5:IF INT(X)=1 THEN {t}", None, set()),
    ("for-int", "X=B+1.5:FOR I=1 TO INT(X):{m}:NEXT", None, set()),
    ("gosub-in-for", "FOR I=1 TO 2:GOSUB 100:NEXT", None, set()),
    ("on-goto-negint", "X=-B:ON INT(X)+4 GOTO {t},{u},{t},{u}", None, set()),
    ("for-negint", "X=-A:FOR I=INT(X) TO 0:{m}:NEXT", None, set()),
    ("for-var-read-before", "Z=K*2:FOR K=1 TO 2:{m}:NEXT K:Z=Z+K", None, set()),
    ("for-var-read-before2", "Z=K+J:FOR K=1 TO 2:FOR J=1 TO 2:{m}:NEXT J,K:Z=Z+K", None, set()),
    ("scalar-array-same-name", "DIM K(3):K(1)=A:K=K+1:IF K=1 THEN {m}", None, set()),
    ("end", "END", None, set()),
    ("stop", "STOP", None, set()),
    ("if-end", "IF A=1 THEN END", None, set()),
    ("if-stop-else", "IF B=2 THEN STOP ELSE {m}", None, set()),
    ("if-else-if-in-then", "IF A=1 THEN IF B=0 THEN {m} ELSE {m} ELSE {m}", None, set()),
]
MENU2 = ["goto", "gosub", "on-goto2", "if-line", "if-else", "if-else-lines", "elseif-else", "nested-if", "for", "for-multiline", "for-nest-bare", "for-nest-bare-ji", "end", "if-gosub", "for-var"]


def build(nlines, shape, picks, a, b):
    """shape: number of slots per line; picks: {(line, slot): (menu entry, t, u)} -> program text, features"""
    mk = [0]

    def marker():
        mk[0] += 1
        return f'PRINT "{mk[0]}"'
    nums = [10 * (i + 1) for i in range(nlines)]
    bodies = []
    feats = set()
    pending_next = {}
    pending_owner = {}
    exits = []  # (construct, target line index) of jumps out of a multi-line FOR body
    for li in range(nlines):
        stmts = []
        if li in pending_next:
            stmts.append(pending_next[li])
        for si in range(shape[li]):
            p = picks.get((li, si))
            if p is None:
                stmts.append(marker())
            else:
                name, tpl, nxt, f = p[0]
                t = tpl
                while "{m}" in t:
                    t = t.replace("{m}", marker(), 1)
                t = t.replace("{t}", str(p[1])).replace("{u}", str(p[2]))
                stmts.append(t)
                feats |= f
                feats.add("c:" + name)
                import re as _re
                if _re.search(r"(THEN|ELSE) \{[tu]\}$", tpl) and si < shape[li] - 1:
                    feats.add("dead-code-after-then-line")
                if nxt:
                    if li + 1 >= nlines:
                        return None, None
                    # a FOR opened inside an IF branch (after an IF on the same line) and closed on a later line is not lexically nested
                    if any(picks.get((li, k)) is not None and _re.search(r"\bIF\b", picks[(li, k)][0][1]) for k in range(si)):
                        return None, None
                    if li + 1 in pending_next:
                        return None, None
                    pending_next[li + 1] = nxt.rstrip(":")
                    pending_owner[li + 1] = (li, si)
                    if "{t}" in tpl and p[1] in nums:
                        exits.append(((li, si), nums.index(p[1])))
        bodies.append(":".join(stmts))
    # a jump out of one FOR body onto the line that starts with the NEXT of a *different* FOR re-enters that loop from outside:
    # FOR/NEXT pairing by execution order, outside the (lexically nested) fragment
    for owner, ti in exits:
        if ti in pending_owner and pending_owner[ti] != owner:
            return None, None
    lines = [f"5 A={a}:B={b}"] + [f"{n} {bd}" for n, bd in zip(nums, bodies)] + ['80 PRINT "E":END', '100 PRINT "S1":RETURN', '110 PRINT "S2":RETURN']
    return "\n".join(lines) + "\n", feats


def gen(run):
    quick = run.tier == "quick"
    nlines = 3 if quick else 4
    shapes = [(1,) * nlines, (2,) + (1,) * (nlines - 1), (1, 2) + (1,) * (nlines - 2)]
    progs = []
    seen = set()
    byname = {m[0]: m for m in MENU}
    targets = [10 * (i + 1) for i in range(nlines)] + [80]
    n_nodes = 0
    for shape in shapes:
        positions = [(li, si) for li in range(nlines) for si in range(shape[li])]
        # c = 0
        combos = [{}]
        # c = 1: full menu, all targets
        for pos in positions:
            for m in MENU:
                tl = targets if "{t}" in m[1] else [0]
                ul = targets if "{u}" in m[1] else [0]
                for t in tl:
                    for u in ul:
                        combos.append({pos: (m, t, u)})
        # c = 2
        menu2 = [byname[n] for n in MENU2] if quick else MENU
        for p1, p2 in itertools.combinations(positions, 2):
            for m1 in (MENU if not quick else menu2):
                for m2 in menu2:
                    t1s = [targets[-1], targets[0]] if "{t}" in m1[1] else [0]
                    t2s = [targets[-1], targets[1]] if "{t}" in m2[1] else [0]
                    for t1 in t1s:
                        for t2 in t2s:
                            combos.append({p1: (m1, t1, targets[1]), p2: (m2, t2, targets[0])})
        n_nodes += len(combos)
        for picks in combos:
            text, feats = build(nlines, shape, picks, "{A}", "{B}")
            if text is None or text in seen:
                continue
            seen.add(text)
            progs.append((text, feats | ({"level2"} if len(picks) > 1 else set())))
    run.states += n_nodes
    run.transitions += n_nodes
    return progs


def gen_line0(run):
    """ON..GOTO / ON..GOSUB lists over {0, 30, 40} in every position x selector 0..4; line 0 is a legal target"""
    progs = []
    for kw in ("GOTO", "GOSUB"):
        for lst in itertools.product((0, 30, 40), repeat=3):
            for ln in (2, 3):
                targets = ",".join(str(x) for x in lst[:ln])
                if kw == "GOTO":
                    body = ['0 N=N+1:PRINT "Z";N:IF N>1 THEN 80', "5 S={A}", f"10 ON S GOTO {targets}", '20 PRINT "F":GOTO 80', '30 PRINT "3":GOTO 80', '40 PRINT "4":GOTO 80', '80 PRINT "E":END']
                else:
                    body = ['0 N=N+1:PRINT "Z";N:IF N>1 THEN RETURN', "5 S={A}", f"10 ON S GOSUB {targets}", '20 PRINT "F":GOTO 80', '30 PRINT "3":RETURN', '40 PRINT "4":RETURN', '80 PRINT "E":END']
                progs.append(("\n".join(body) + "\n{B}", {"line0", "c:on-" + kw.lower() + "-line0", "needs-init"}))
    run.states += len(progs)
    run.transitions += len(progs)
    return progs


def work(chunk):
    res = []
    for text, feats in chunk:
        row = []
        for (a, b) in INPUTS:
            src = text.replace("{A}", str(a)).replace("{B}", str(b))
            for oi, opts in enumerate(OPTSETS):
                if "level2" in feats and oi in (1, 2):
                    continue
                if "needs-init" in feats and not opts.get("initialize_vars"):
                    continue  # the visit counter of line 0 is read before it is assigned
                v = sem.compare(src, opts, decb_horizon=400)
                row.append((a, b, oi, v.kind, v.symptom, v.detail, v.out if v.kind == "violation" else None))
        res.append(row)
    return res


QUICK = True


def run(run):
    global QUICK
    QUICK = run.tier == "quick"
    if QUICK:
        run.caps.append("quick: programs with two constructs use a reduced second menu, two jump targets per construct and the option sets {} and {filter, initialize_vars}")
    else:
        run.caps.append("thorough: programs with two constructs use two jump targets per construct and the option sets {} and {filter, initialize_vars}")
    run.rule = ("programs = line shapes x positions x construct menu x jump targets with at most 2 constructs; each run on 5 input vectors x 4 option sets; distinct = distinct skeletons; "
                "non-trivial = skeleton with >= 1 construct on which at least one run produced a verdict")
    run.assumptions = ["Color BASIC: FOR is bottom-tested (body runs once for an empty range), NEXT without variable closes the innermost FOR, IF branches own the rest of the line, ELSE binds to the nearest IF",
                       "BASIC09: FOR is top-tested; programs whose Color BASIC run raises an error (NEXT without FOR, ...) are outside the fragment"]
    progs = gen(run) + [(t.replace("{B}", ""), f) for t, f in gen_line0(run)]
    i = 0
    decided = 0
    for res in core.pmap(work, progs, chunk=8):
        for row in res:
            text, feats = progs[i]
            i += 1
            got = False
            for a, b, oi, kind, sym, detail, out in row:
                run.evaluations += 1
                run.count("verdict:" + kind + (":" + sym if kind not in ("agree", "violation") else ""))
                if kind in ("agree", "violation"):
                    got = True
                if kind == "noverdict" and sym == "b09-unparsable":
                    # the source is a valid, lexically nested program that Color BASIC runs: an unparsable translation cannot follow it
                    kind, sym = "violation", "translation-unparsable"
                if kind == "violation":
                    f = set(feats)
                    if "for-range-from-input" in f and a == 0:
                        f.add("for-empty-range")
                    src = text.replace("{A}", str(a)).replace("{B}", str(b))
                    run.violation(sym, f | {"opts:%d" % oi}, {"text": src, "opts": OPTSETS[oi]}, f"A={a} B={b} opts={OPTSETS[oi]}: {detail}\nsource: {src!r}\noutput tail: {(out or '')[-400:]!r}")
            if got:
                decided += 1
            if i % 800 == 1:
                run.sample({"skeleton": text, "runs": len(row), "verdicts": sorted({r[3] for r in row})})
    run.distinct_n = decided


def replay(case):
    v = sem.compare(case["text"], case["opts"], decb_horizon=400)
    return {"verdict": v.kind, "symptom": v.symptom, "detail": v.detail, "violations": [v.symptom] if v.kind == "violation" else []}
