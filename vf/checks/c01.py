"""C01 Translated expressions evaluate to the same values as in Color BASIC.

Spaces: (a) every numeric expression sentence with k <= 3 binary operators (4 in thorough)
over + - * / ^ AND OR, atoms A,B,C,D in positional order each optionally negated, optional
leading NOT, every placement of one or two non-nested parenthesis pairs - in an assignment;
(b) IF conditions built from k <= 2 (3) comparisons with AND/OR/NOT/parentheses and bare
numeric conditions; (c) expressions in PRINT / FOR bound / subscript / ON selector
contexts; (d) string concatenation and comparison; (e) every literal spelling;
(f) function nestings of depth <= 2 over the deterministic functions.
Oracle: the Color BASIC model evaluates the source, the BASIC09 model evaluates the
translation; values of all variables and the branch taken must agree for every valuation.
"""
import itertools
import re

from vf import core, sem
from vf.gen import features as FE

LEVEL = "model_checking"

OPS = ["+", "-", "*", "/", "^", "AND", "OR"]
VALS_INT = [(2, 3, 5, 7, 4), (-2, 3, -5, 7, -3), (0, 1, 0, 1, 1), (1, 0, 2, -1, 2), (3, 3, 3, 3, 3)]
VAL_REAL = (0.5, 2, 4, -3, 1.5)
ATOMS = ["A", "B", "C", "D", "E"]


def sentences(k, ops=OPS):
    """yield (tokens, features) for all sentences with k binary operators."""
    for opc in itertools.product(ops, repeat=k):
        for negs in itertools.product([False, True], repeat=k + 1):
            for lead_not in (False, True):
                base = []
                for i in range(k + 1):
                    if negs[i]:
                        base.append("-")
                    base.append(ATOMS[i])
                    if i < k:
                        base.append(opc[i])
                # parenthesis placements: none, one pair around atoms i..j (j>i, not whole), two disjoint pairs
                spans = [(i, j) for i in range(k + 1) for j in range(i + 1, k + 1) if not (i == 0 and j == k)]
                placements = [()] + [(s,) for s in spans] + [(s, t) for s in spans for t in spans if s[1] < t[0]]
                if k >= 1:
                    placements.append(((0, k),))  # whole expression (interesting after NOT / unary minus)
                for pl in placements:
                    toks = []
                    if lead_not:
                        toks.append("NOT")
                    for i in range(k + 1):
                        for (a, b) in pl:
                            if a == i:
                                toks.append("(")
                        if negs[i]:
                            # a minus directly inside an opened parenthesis or at the start is unary
                            toks.append("-")
                        toks.append(ATOMS[i])
                        for (a, b) in pl:
                            if b == i:
                                toks.append(")")
                        if i < k:
                            toks.append(opc[i])
                    # unary minus placement relative to "(": generated as "( - A"; ok
                    yield toks


def expr_features(toks):
    f = set()
    n = len(toks)
    logic = any(t in ("AND", "OR", "NOT") for t in toks)
    if logic:
        f.add("logic")
    for i, t in enumerate(toks):
        unary = t == "-" and (i == 0 or toks[i - 1] in OPS or toks[i - 1] in ("(", "NOT"))
        if unary:
            # operand = next atom or parenthesised group
            j = i + 1
            if j < n and toks[j] == "(":
                depth = 0
                while j < n:
                    if toks[j] == "(":
                        depth += 1
                    elif toks[j] == ")":
                        depth -= 1
                        if depth == 0:
                            break
                    j += 1
            nxt = toks[j + 1] if j + 1 < n else None
            if nxt == "^":
                f.add("unary-minus-left-of-pow")
            # what follows at the same nesting level up to the closing paren / end
            depth = 0
            for k2 in range(j + 1, n):
                if toks[k2] == "(":
                    depth += 1
                elif toks[k2] == ")":
                    if depth == 0:
                        break
                    depth -= 1
                elif depth == 0 and toks[k2] in ("AND", "OR"):
                    f.add("unary-minus-before-and-or")
    if toks and toks[0] == "NOT":
        depth = 0
        for t in toks[1:]:
            if t == "(":
                depth += 1
            elif t == ")":
                depth -= 1
            elif depth == 0 and t in ("AND", "OR"):
                f.add("not-before-and-or")
        if len(toks) > 2:
            f.add("leading-not")
    # "/" between two parenthesised groups that are each an AND / OR: both operands are LAND / LOR results (INTEGER in BASIC09)
    for i, t in enumerate(toks):
        if t != "/" or i == 0 or i + 1 >= n or toks[i - 1] != ")" or toks[i + 1] != "(":
            continue

        def group(start, step):
            depth, j, inner = 0, start, []
            while 0 <= j < n:
                if toks[j] == ("(" if step > 0 else ")"):
                    depth += 1
                elif toks[j] == (")" if step > 0 else "("):
                    depth -= 1
                    if depth == 0:
                        break
                elif depth == 1:
                    inner.append(toks[j])
                j += step
            return inner
        if any(x in ("AND", "OR") for x in group(i - 1, -1)) and any(x in ("AND", "OR") for x in group(i + 1, 1)):
            f.add("division-of-two-logic-groups")
    # ^ chains / pow with negative base etc. are value-level, no feature
    return f


def text_of(toks):
    out = []
    for t in toks:
        out.append(t)
    s = " ".join(out)
    return s.replace("( ", "(").replace(" )", ")")


def program_assign(expr, vals_list, target="Z"):
    lines = []
    n = 10
    for i, vals in enumerate(vals_list):
        lines.append(f"{n} A={vals[0]}:B={vals[1]}:C={vals[2]}:D={vals[3]}:E={vals[4]}")
        lines.append(f"{n + 5} {target}{i + 1}={expr}")
        n += 10
    return "\n".join(lines) + "\n"


def judge_sentence(expr, logic):
    """-> (kind, symptom, detail, out) combining all valuations."""
    vals = VALS_INT if logic else VALS_INT + [VAL_REAL]
    text = program_assign(expr, vals)
    v = sem.compare(text, {}, decb_horizon=200)
    if v.kind in ("outside", "noverdict") and v.symptom in ("decb-error", "decb-unspec", "b09-unspec", "unspec-values") or (v.kind == "violation" and v.symptom == "b09-runtime-error"):
        # an arithmetic error / unspecified value under one valuation hides the others: judge valuations separately
        kinds = []
        for val in vals:
            t = program_assign(expr, [val])
            w = sem.compare(t, {}, decb_horizon=50)
            if w.kind == "violation":
                return w.kind, w.symptom, w.detail + f" [A,B,C,D={val}]", w.out, t
            kinds.append(w.kind)
        if "agree" in kinds:
            return "agree", "", "", v.out, text
        return kinds[0], v.symptom, v.detail, v.out, text
    return v.kind, v.symptom, v.detail, v.out, text


def work_expr(chunk):
    res = []
    for toks in chunk:
        expr = text_of(toks)
        logic = any(t in ("AND", "OR", "NOT") for t in toks)
        res.append(judge_sentence(expr, logic))
    return res


# ---------------------------------------------------------------------- (b) conditions
RELOPS = ["=", "<>", "<", ">", "<=", ">=", "=<", "=>"]


def conditions(k):
    comps = [f"{a} {op} {b}" for (a, b) in (("A", "B"), ("B", "1"), ("A", "0")) for op in RELOPS]
    if k == 1:
        for c in comps:
            for nt in ("", "NOT "):
                yield nt + c, {"cond"} | ({"not-in-cond"} if nt else set())
        return
    small = [f"A {op} B" for op in RELOPS[:6]] + ["B = 1", "A > 0"]
    second = ["B = 1", "A > 0", "A <> B", "B <= 0"]
    third = ["A = 1", "B > A"]
    for c1 in small:
        for j in ("AND", "OR"):
            for c2 in second:
                for form in ("{n1}{a} {j} {n2}{b}", "{n1}({a} {j} {b})", "({a}) {j} {n2}({b})", "{n1}({a}) {j} ({b})"):
                    for n1 in ("", "NOT "):
                        for n2 in ("", "NOT "):
                            if "{n2}" not in form and n2:
                                continue
                            if "{n1}" not in form and n1:
                                continue
                            s = form.format(a=c1, b=c2, j=j, n1=n1, n2=n2)
                            f = {"cond"}
                            if n1 or n2:
                                f.add("not-in-cond")
                            if n1 and "(" not in form.split("{j}")[0] and form.startswith("{n1}{a}"):
                                f.add("not-before-and-or-in-if")
                            if n2:
                                f.add("inner-not-in-cond")
                            yield s, f
                            if k >= 3:
                                for j2 in ("AND", "OR"):
                                    for c3 in third:
                                        yield f"{s} {j2} {c3}", f | {"three-comparisons"}


def nested_conditions():
    """three comparisons with one parenthesised sub-group (its members parenthesised or not) on either side of the outer operator"""
    forms = ["(({a}) {j} ({b})) {k} {c}", "{c} {k} (({a}) {j} ({b}))", "({a} {j} {b}) {k} {c}", "{c} {k} ({a} {j} {b})", "NOT (({a}) {j} ({b})) {k} {c}", "(({a}) {j} ({b}))", "(({a} {j} {b}))",
             "((({a})) {j} {b}) {k} ({c})", "({a}) {j} (({b}) {k} ({c}))", "(({a}) {j} ({b})) {k} (({c}) {j} ({a}))", "NOT (({a}) {j} ({b}))", "({c} {k} ({a})) {j} ({b})"]
    seen = set()
    for a in ("A = 1", "A <> B"):
        for b in ("B = 2", "B > 0"):
            for c in ("A > 0", "B = 1"):
                for j in ("AND", "OR"):
                    for k in ("AND", "OR"):
                        for form in forms:
                            t = form.format(a=a, b=b, c=c, j=j, k=k)
                            if t not in seen:
                                seen.add(t)
                                yield t, {"cond", "nested-parens"} | ({"not-in-cond"} if t.startswith("NOT") else set())


def cond_features(c):
    f = set()
    t = c.strip()
    if t.startswith("NOT"):
        depth = 0
        for w in re.findall(r"\(|\)|[A-Z]+|[^\sA-Z()]+", t[3:]):
            if w == "(":
                depth += 1
            elif w == ")":
                depth -= 1
            elif depth == 0 and w in ("AND", "OR"):
                f.add("not-before-and-or-in-if")
    return f


def judge_cond(cond, form):
    """runs the condition for all (A,B) in {-1,0,1,2}^2 in one program."""
    lines = []
    n = 10
    for a in (-1, 0, 1, 2):
        for b in (-1, 0, 1, 2):
            lines.append(f"{n} A={a}:B={b}")
            if form == "if":
                lines.append(f'{n + 1} IF {cond} THEN PRINT "T";')
                lines.append(f'{n + 2} PRINT "."')
            elif form == "ifelse":
                lines.append(f'{n + 1} IF {cond} THEN PRINT "T" ELSE PRINT "F"')
            elif form == "ifgoto":
                lines.append(f'{n + 1} IF {cond} THEN {n + 3}')
                lines.append(f'{n + 2} PRINT "F";')
                lines.append(f'{n + 3} PRINT "."')
            n += 10
    text = "\n".join(lines) + "\n"
    v = sem.compare(text, {}, decb_horizon=400)
    return v.kind, v.symptom, v.detail, v.out, text


def work_cond(chunk):
    return [judge_cond(c, form) for c, form, f in chunk]


# ---------------------------------------------------------------------- generic programs
def work_prog(chunk):
    res = []
    for c in chunk:
        v = sem.compare(c["text"], c.get("opts", {"initialize_vars": True}), inputs=c.get("inputs", []), decb_horizon=600)
        res.append((v.kind, v.symptom, v.detail, v.out, c["text"]))
    return res


def gen_contexts(run):
    from vf.decb import model as D
    cases = []
    exprs = []
    for k in (0, 1, 2):
        for toks in sentences(k, ops=["+", "-", "*", "^", "AND"]):
            exprs.append(toks)
    seen = set()
    for toks in exprs:
        e = text_of(toks)
        if e in seen:
            continue
        seen.add(e)
        f = expr_features(toks)
        # value of the expression under the context valuation (used to keep loops/subscripts inside their domain)
        try:
            m = D.Machine(f"10 A=2:B=3:C=1\n20 Z={e}\n")
            m.run()
            val = m.vars.get("Z")
        except Exception:  # noqa
            val = None
        if not isinstance(val, float):
            continue
        pre = "10 DIM M(40):A=2:B=3:C=1:FOR I=0 TO 40:M(I)=I*2:NEXT\n"
        ctxs = {"print": f"20 PRINT {e}\n", "on": f'20 ON {e} GOTO 40,50,60\n30 PRINT "FALL":END\n40 PRINT "1":END\n50 PRINT "2":END\n60 PRINT "3":END\n'}
        if -1000 < val < 1000:
            ctxs["for-end"] = f"20 L={e}:FOR I=L-2 TO {e}:Z=Z+1:NEXT I\n"
            ctxs["for-start"] = f"20 L={e}:FOR I={e} TO L+2:Z=Z+1:NEXT I\n"
        if 1 <= val <= 3:
            ctxs["for-step"] = f"20 FOR I=1 TO 9 STEP {e}:Z=Z+1:NEXT I\n"
        if -3 <= val <= -1:
            ctxs["for-step-neg"] = f"20 FOR I=9 TO 1 STEP {e}:Z=Z+1:NEXT I\n"
        if 0 <= val <= 40:
            ctxs["subscript-r"] = f"20 Z=M({e})\n"
            ctxs["subscript-l"] = f"20 M({e})=77:FOR I=0 TO 40:Z=Z+M(I)*(I+1):NEXT\n"
        for cn, body in ctxs.items():
            cases.append({"text": pre + body, "features": set(f) | {"ctx:" + cn}, "origin": f"{cn}: {e}"})
    run.states += len(cases)
    run.transitions += len(cases)
    return cases


def gen_strings(run):
    cases = []
    # a string literal without its closing quote (legal as the last thing on a line) keeps every character
    for tgt in ("Z$", "N$(1)", "M$(2)"):
        for lit in ("AB", "A", "", "A B ", "X:Y", "1,2"):
            cases.append({"text": f'10 DIM M$(3)\n20 {tgt}="{lit}\n30 Y$={tgt}+"C":Y=LEN({tgt})\n', "features": {"string", "unterminated-literal"}, "origin": f"unterminated {tgt}={lit!r}"})
            cases.append({"text": f'10 DIM M$(3)\n20 IF 1=1 THEN {tgt}="{lit}\n30 Y=LEN({tgt})\n', "features": {"string", "unterminated-literal"}, "origin": f"unterminated in THEN {tgt}={lit!r}"})
    atoms = ['A$', 'B$', '"X"', 'LEFT$(A$,1)', '"" ']
    for a, b in itertools.product(atoms, repeat=2):
        cases.append({"text": f'10 A$="AB":B$="C"\n20 Z$={a}+{b}:PRINT Z$;LEN(Z$)\n', "features": {"string", "concat"}, "origin": f"concat {a}+{b}"})
        for c in atoms[:3]:
            cases.append({"text": f'10 A$="AB":B$="C"\n20 Z$={a}+{b}+{c}\n', "features": {"string", "concat"}, "origin": f"concat3 {a}+{b}+{c}"})
        for op in RELOPS:
            cases.append({"text": f'10 A$="AB":B$="C"\n20 IF {a}{op}{b} THEN PRINT "T" ELSE PRINT "F"\n', "features": {"string", "compare"}, "origin": f"strcmp {a}{op}{b}"})
            cases.append({"text": f'10 A$="AB":B$="AB":A=1\n20 IF {a}{op}{b} AND A=1 THEN PRINT "T" ELSE PRINT "F"\n', "features": {"string", "compare", "mixed-cond"}, "origin": f"strcmp+num {a}{op}{b}"})
    for s1, s2 in itertools.product(["", "A", "AB", "B", "a", "AA"], repeat=2):
        for op in ("=", "<", ">", "<=", ">=", "<>"):
            cases.append({"text": f'10 A$="{s1}":B$="{s2}"\n20 IF A${op}B$ THEN PRINT "T" ELSE PRINT "F"\n', "features": {"string", "compare", "values"}, "origin": f"strcmp values {s1!r}{op}{s2!r}"})
    run.states += len(cases)
    run.transitions += len(cases)
    return cases


LITS = ["1", "1.", "1.0", ".5", "0.5", "1E2", "1E+2", "1.5E-1", "1 E 2", "-1", "+1", "- 1", "&H0", "&HFF", "&H7FFF", "&H8000", "&HFFFF", "&HFFFFFF", "& HFF", "&H FF", "12345678", "0.000001", "1E-3", "255", "32767", "32768", "65535", "65536", "0", "00012", "1E", "--1", "."]


def gen_literals(run):
    cases = []
    for lit in LITS:
        f = {"literal"}
        if lit in ("1E", "--1", "."):
            f.add("literal-odd")
        ctx = {
            "alone": f"10 Z={lit}\n",
            "left-of-pow": f"10 Z={lit}^2\n",
            "right-of-pow": f"10 Z=2^{lit}\n" if not lit.startswith(("&HFFFF", "655", "327", "123", "&H8", "&H7")) else None,
            "after-minus": f"10 B=3:Z=B-{lit}\n",
            # two literals meeting in one operator (BASIC09 would use INTEGER arithmetic if both came out as INTEGER constants)
            "lit-div-lit": f"10 Z={lit}/&H2:Y=&HF/{lit}\n" if lit.lstrip("+- ").replace(" ", "").startswith("&H") and re.sub(r"[^1-9A-F]", "", lit.replace("&H", "").replace("& H", "")) else None,
            "lit-div-dec": f"10 Z={lit}/2:Y=7/{lit}\n" if re.fullmatch(r"[0-9]+", lit) and int(lit) else None,
            "lit-op-lit": f"10 Z={lit}*{lit}:Y={lit}+{lit}:X={lit}-&H1\n" if re.fullmatch(r"[0-9]+|& *H *[0-9A-F]+", lit) else None,
            "times": f"10 B=3:Z=B*{lit}+1\n",
            "compare": f'10 B=1:IF B={lit} THEN PRINT "T" ELSE PRINT "F"\n',
            "compare-lt": f'10 B=1:IF B<{lit} THEN PRINT "T" ELSE PRINT "F"\n',
            "data": f"10 READ Z\n20 DATA {lit}\n" if " " not in lit.strip() or True else None,
            "dim": f"10 DIM M({lit}):M(1)=5:Z=M(1)\n" if re.fullmatch(r"[0-9]+|& *H *[0-9A-F]+", lit) and int(re.sub(r"[& H]", "", lit), 16 if "H" in lit else 10) < 300 else None,
            "and": f"10 B=7:Z=B AND {lit}\n" if not any(ch in lit for ch in ".E") and "FFFFFF" not in lit and lit not in ("65536", "32768", "65535", "&H8000", "&HFFFF", "12345678") else None,
        }
        for cn, t in ctx.items():
            if t is None:
                continue
            ff = set(f) | {"lit-ctx:" + cn}
            if cn == "left-of-pow" and lit.lstrip().startswith(("-", "+")):
                ff.add("signed-literal-left-of-pow")
            cases.append({"text": t, "features": ff, "origin": f"literal {lit!r} {cn}"})
    run.states += len(cases)
    run.transitions += len(cases)
    return cases


NUM1 = ["ABS", "SGN", "INT", "FIX", "SQR", "EXP", "LOG", "SIN", "COS", "TAN", "ATN"]


def gen_functions(run):
    cases = []
    args = ["4", "-2.5", "0", "2.5", "0.25", "-3", "100"]
    for f1 in NUM1:
        for a in args:
            cases.append({"text": f"10 X={a}:Z={f1}(X)\n", "features": {"function", "fn:" + f1} | ({"fn:FIX-nonint"} if f1 == "FIX" and "." in a else set()), "origin": f"{f1}({a})"})
        for f2 in NUM1:
            for a in ("4", "-2.5", "0.25"):
                cases.append({"text": f"10 X={a}:Z={f1}({f2}(X))+1\n", "features": {"function", "nested", "fn:" + f1, "fn:" + f2} | ({"fn:FIX-nonint"} if "FIX" in (f1, f2) else set()), "origin": f"{f1}({f2}({a}))"})
    sfun = [("LEN(S$)", "n"), ("ASC(S$)", "n"), ("VAL(T$)", "n"), ("INSTR(1,S$,\"B\")", "n"), ("INSTR(1,S$,\"C\")", "n"), ("INSTR(1,S$,\"BC\")", "n"), ("INSTR(1,S$,S$)", "n"), ("INSTR(3,S$,\"C\")", "n"), ("INSTR(4,S$,\"C\")", "n"), ("INSTR(2,S$+S$,\"AB\")", "n"), ("LEFT$(S$,2)", "s"), ("RIGHT$(S$,1)", "s"), ("MID$(S$,2,1)", "s"), ("CHR$(66)", "s"),
            ("STR$(7)", "s"), ("HEX$(255)", "s"), ("HEX$(10)", "s"), ("HEX$(4096)", "s"), ("STRING$(3,\"Z\")", "s"), ("STRING$(2,S$)", "s")]
    for e, k in sfun:
        tgt = "Z" if k == "n" else "Z$"
        f = {"function", "string-function"}
        m = re.match(r"[A-Z]+\$?", e)
        f.add("fn:" + m.group(0))
        cases.append({"text": f'10 S$="ABC":T$="12"\n20 {tgt}={e}\n', "features": f, "origin": e})
        for e2, k2 in sfun:
            if k2 == "s":
                m2 = re.match(r"[A-Z]+\$?", e2)
                cases.append({"text": f'10 S$="ABC":T$="12"\n20 Z=LEN({e2})+1:Z$={e2}+"!"\n', "features": {"function", "nested", "fn:" + m2.group(0)}, "origin": f"LEN({e2})"})
                if k == "n" and "S$" in e:
                    e3 = e.replace("S$", f"({e2})" if False else e2, 1)
                    cases.append({"text": f'10 S$="ABC":T$="12"\n20 Z={e3}\n', "features": {"function", "nested", "fn:" + m.group(0), "fn:" + m2.group(0)}, "origin": e3})
    for n1 in ("INT", "ABS", "SGN"):
        for se, sk in sfun:
            if sk == "n":
                m2 = re.match(r"[A-Z]+\$?", se)
                cases.append({"text": f'10 S$="ABC":T$="12"\n20 Z={n1}({se})*2\n', "features": {"function", "nested", "fn:" + n1, "fn:" + m2.group(0)}, "origin": f"{n1}({se})"})
    for e in ("CHR$(INT(65.5))", "STR$(LEN(S$))", "LEFT$(S$,INT(2.5))", "MID$(S$,LEN(T$),1)", "STRING$(LEN(T$),S$)", "HEX$(ASC(S$))", "CHR$(ASC(S$)+1)", "RIGHT$(LEFT$(S$,2),1)"):
        m = re.match(r"[A-Z]+\$?", e)
        cases.append({"text": f'10 S$="ABC":T$="12"\n20 Z$={e}\n', "features": {"function", "nested", "fn:" + m.group(0)}, "origin": e})
    rep = [("INT(R/2)", "R=R+3"), ("VAL(T$)", 'T$="45"'), ('INSTR(1,S$,"B")', 'S$="XXB"'), ("LEN(STR$(R))", "R=R*100"), ("ABS(INT(R))", "R=-R-1"), ("INT(R)+INT(R)", "R=R+0.5")]
    for e, change in rep:
        pre = '10 S$="ABC":T$="12":R=5.5\n'
        fnf = {"fn:" + w for w in re.findall(r"[A-Z]+\$?(?=\()", e)}
        cases.append({"text": pre + f"20 X={e}+1:{change}:Y={e}+1\n", "features": {"function", "repeated-call"} | fnf, "origin": f"repeated {e} / {change}"})
        cases.append({"text": pre + f"20 X={e}:{change}:Y={e}:Z={e}+{e}\n", "features": {"function", "repeated-call"} | fnf, "origin": f"repeated-direct {e} / {change}"})
        for a in (1, 2):
            cases.append({"text": pre + f"20 A={a}:IF A=1 THEN B={e}+1 ELSE D={e}+2\n30 {change}:IF A=2 THEN B={e}+3 ELSE D={e}+4\n", "features": {"function", "repeated-call", "if-arms"} | fnf, "origin": f"arms {e} A={a}"})
    for a in ("-2.5", "-0.25", "2.5", "-3", "0"):
        cases.append({"text": f"10 X={a}:X=INT(X):Y={a}:Y=INT(Y)+INT(Y)\n", "features": {"function", "result-into-operand", "fn:INT"}, "origin": f"X=INT(X) {a}"})
        cases.append({"text": f"10 X={a}:X=ABS(INT(X)):M(1)={a}:M(1)=INT(M(1))\n", "features": {"function", "result-into-operand", "fn:INT"}, "origin": f"X=ABS(INT(X)) {a}"})
    for t in ('S$=STRING$(2,S$)', 'S$=HEX$(LEN(S$))', 'T=1:T=INSTR(T,S$,"C")', 'S$="CAC":T=2:T=INSTR(T,S$,"C")', 'S$="CAC":T=2:T=INSTR(T,S$,"C")+T', 'S$=STRING$(3,S$)+S$', 'T$=STR$(VAL(T$))', 'X=3:X=VAL(T$)+X'):
        cases.append({"text": f'10 S$="ABC":T$="12"\n20 {t}\n', "features": {"function", "result-into-operand"} | ({"fn:STR$"} if "STR$" in t else set()), "origin": t})
    # string functions whose result is longer than BASIC09's default 32 bytes, requested string size 64 / 80 / 255
    for st in (64, 80, 255):
        o = {"initialize_vars": True, "default_str_storage": st}
        for t in ('A$=STRING$(40,"-")+">":Z=LEN(A$)', 'A$="<"+STRING$(33,"x")+HEX$(255):Z=LEN(A$)', 'B$=STRING$(20,"ab"):A$=B$+B$+"!":Z=LEN(A$)',
                  'Z=2:IF STRING$(40,"a")+"b">STRING$(40,"a")+"a" THEN Z=1', 'A$=LEFT$(STRING$(50,"q"),41)+MID$("XYZ",2,1):Z=ASC(RIGHT$(A$,1))',
                  'Z=INSTR(1,STRING$(36,"-")+"AB","AB")', 'N$(1)=STRING$(40,"-")+">":Z=LEN(N$(1))', 'B$=STRING$(30,"b"):N$(2)=B$+B$:Z=LEN(N$(2)+N$(0))',
                  'DIM M$(2):M$(1)=STRING$(33,"m")+"!":Z=ASC(RIGHT$(M$(1),1))', 'Z=LEN(STRING$(33,"*")+STRING$(20,"+"))', 'A$=STRING$(33,CHR$(65)):Z=VAL(HEX$(LEN(A$)))'):
            cases.append({"text": f"10 {t}\n", "opts": o, "features": {"function", "long-string", "storage:%d" % st}, "origin": f"long {t} size {st}"})
    # functions inside IF conditions: every branch form; thresholds on both sides of the Color BASIC value
    import math
    from vf.decb import model as D
    CONV = ("INT", "VAL", "INSTR", "STR$", "HEX$", "STRING$", "FIX")
    conds = [(f"{f1}(X)", {"fn:" + f1}) for f1 in NUM1] + [(e, {"fn:" + re.match(r"[A-Z]+\$?", e).group(0)}) for e, k in sfun if k == "n"] + [("LEN(STR$(X))", {"fn:STR$"}), ("ASC(HEX$(X+9))", {"fn:HEX$"}), ("INT(X)+INT(X/2)", {"fn:INT"})]
    for e, ff in conds:
        for a in ("2.5", "4"):
            pre = f'10 S$="ABC":T$="12":X={a}:C=INT(X*3)+VAL(T$)\n'
            try:
                m = D.Machine(pre + f"20 Z={e}\n")
                m.run()
                val = m.vars.get("Z")
            except Exception:  # noqa
                continue
            if not isinstance(val, float) or math.isnan(val) or abs(val) > 1e6:
                continue
            lo, hi = math.floor(val) - 1, math.floor(val) + 1
            conv = any(c + "(" in e for c in CONV)
            body = (f'20 IF {e}>{lo} THEN Z=1\n30 IF {e}>{hi} THEN Z=Z+10\n40 IF {e}<{hi} THEN 60\n50 Z=Z+100\n60 IF {e}<{lo} THEN 80\n70 Z=Z+1000\n80 IF {e}>{lo} AND {e}<{hi} THEN Z=Z+10000\n'
                    f'90 IF NOT {e}>{hi} THEN Z=Z+100000\n')
            cases.append({"text": pre + body, "features": {"function", "fn-in-cond"} | ff | ({"fn:FIX-nonint"} if "FIX" in e and "." in a else set()), "origin": f"cond {e} X={a}"})
            if not conv:
                body2 = (f'20 IF {e}>{lo} THEN Z=1 ELSE Z=2\n30 IF {e}>{hi} THEN Z=Z+10 ELSE Z=Z+20\n40 IF {e}>{hi} THEN Z=Z+100 ELSE IF {e}>{lo} THEN Z=Z+200 ELSE Z=Z+300\n'
                         f'50 IF {e}<{lo} THEN 70 ELSE Z=Z+1000\n60 Z=Z+5000\n70 Z=Z+10000\n')
                cases.append({"text": pre + body2, "features": {"function", "fn-in-cond", "fn-in-ifelse-cond"} | ff, "origin": f"cond-else {e} X={a}"})
    run.states += len(cases)
    run.transitions += len(cases)
    return cases


def run(run):
    quick = run.tier == "quick"
    sem.NUMFMT_INSENSITIVE = True
    run.rule = ("(a) all expression sentences with k<=3 (4) binary operators x negations x leading NOT x parenthesis placements, 5-6 valuations each; (b) conditions; (c) contexts; (d) strings; "
                "(e) literal spellings x contexts; (f) function nestings; distinct = distinct source programs; non-trivial = both models gave a verdict")
    run.assumptions = ["Microsoft operator table for Color BASIC (^ > unary - > * / > + - > relational > NOT > AND > OR, left associative) and BASIC09's table (NOT, unary - > ^ ** > * / > + - > relational > AND > OR XOR)",
                       "AND/OR/NOT sentences are evaluated on integer valuations only; a comparison result used as a number is documented as unsupported (BASIC09 type error -> outside the fragment)"]
    decided = 0

    def take(kind, sym, detail, out, text, feats, origin):
        nonlocal decided
        run.evaluations += 1
        run.count("verdict:" + kind + (":" + sym if kind != "agree" and kind != "violation" else ""))
        if kind in ("agree", "violation"):
            decided += 1
        if kind == "violation":
            run.violation(sym, feats, {"text": text}, f"{origin}: {detail}\nsource: {text!r}\noutput tail: {(out or '')[-300:]!r}")

    # (a)
    if not run.only or "expr" in run.only:
        kmax = 3 if quick else 4
        for k in range(0, kmax + 1):
            ops = OPS
            if k == 4:
                ops = OPS  # thorough: complete
            sents = list(sentences(k, ops))
            if quick and k == 3:
                sents = [t for t in sents if "-" not in [x for i, x in enumerate(t) if x == "-" and (i == 0 or t[i - 1] in OPS or t[i - 1] in ("(", "NOT"))]]
                run.caps.append("quick: 3-operator sentences are enumerated without unary minus (all operators, NOT, parenthesis placements); thorough enumerates them completely and adds k=4")
            if k == 4:
                sents = [t for t in sents if "(" not in t and not any(x == "-" and (i == 0 or t[i - 1] in OPS or t[i - 1] in ("(", "NOT")) for i, x in enumerate(t))]
                run.caps.append("thorough: 4-operator sentences without parentheses and unary minus")
            ex_states = len(sents)
            run.states += ex_states
            run.transitions += ex_states
            i = 0
            for res in core.pmap(work_expr, sents, chunk=100):
                for kind, sym, detail, out, text in res:
                    toks = sents[i]
                    i += 1
                    if i % 20000 == 1:
                        run.sample({"expression": text_of(toks), "program": text, "verdict": kind})
                    take(kind, sym, detail, out, text, expr_features(toks) | {"expr", "k=%d" % k}, text_of(toks))
    # (b)
    if not run.only or "cond" in run.only:
        conds = []
        for k in ((1, 2) if quick else (1, 2, 3)):
            for c, f in conditions(k):
                for form in ("if", "ifelse", "ifgoto"):
                    conds.append((c, form, f | {"form:" + form}))
        for c, f in nested_conditions():
            for form in ("if", "ifelse", "ifgoto"):
                conds.append((c, form, f | {"form:" + form}))
        for c in ("-A>1", "-A=B", "- A < B", "+A=1", "-A>=-1", "-(A)>1", "-A+1>B"):
            for form in ("if", "ifelse", "ifgoto"):
                conds.append((c, form, {"cond", "sign-before-comparison-in-if", "form:" + form}))
        for bare in ("A", "A+B", "A AND B", "NOT A", "A*B", "A-B", "(A)", "-A", "A OR B", "NOT A AND B"):
            for form in ("if", "ifelse", "ifgoto"):
                conds.append((bare, form, {"cond", "bare-numeric-condition", "form:" + form} | ({"logic"} if any(w in bare for w in ("AND", "OR", "NOT")) else set())))
        run.states += len(conds)
        run.transitions += len(conds)
        i = 0
        for res in core.pmap(work_cond, conds, chunk=40):
            for kind, sym, detail, out, text in res:
                c, form, f = conds[i]
                i += 1
                if i % 1500 == 1:
                    run.sample({"condition": c, "form": form, "verdict": kind})
                take(kind, sym, detail, out, text, set(f) | cond_features(c), f"IF {c} ({form})")
    # (c)-(f)
    for name, g in (("ctx", gen_contexts), ("str", gen_strings), ("lit", gen_literals), ("fn", gen_functions)):
        if run.only and name not in run.only:
            continue
        cs = g(run)
        i = 0
        for res in core.pmap(work_prog, cs, chunk=60):
            for kind, sym, detail, out, text in res:
                c = cs[i]
                i += 1
                if i % 1200 == 1:
                    run.sample({"program": text, "verdict": kind, "origin": c["origin"]})
                take(kind, sym, detail, out, text, set(c["features"]) | {name}, c["origin"])
    run.distinct_n = decided


def replay(case):
    v = sem.compare(case["text"], {"initialize_vars": True}, decb_horizon=600)
    return {"verdict": v.kind, "symptom": v.symptom, "detail": v.detail, "violations": [v.symptom] if v.kind == "violation" else []}
