"""C03 Arrays, DATA/READ, PRINT, INPUT and string functions keep their meaning.

Five sub-explorations, each complete within its bound, each program executed under the
Color BASIC model and (translated) under the BASIC09 model:
 (1) arrays: DIM forms (1-3 dims, decimal/hex bounds) and undimensioned arrays, every element
     written with a distinct value, read back and printed; initial values printed first;
 (2) DATA/READ: 1-2 DATA lines x item kinds (numeric, negative, hex, quoted, unquoted, empty)
     x target lists x RESTORE, type-correct pairings;
 (3) PRINT: all argument lists of length <= 3 over {A, A$, "X", TAB(3)} x separators;
 (4) INPUT / LINE INPUT: prompt x targets x input scripts;
 (5) string functions on all strings over {A,B} of length <= 3 and in-range arguments.
String storage 32 and 80, initialize_vars on (strict initialisation) and off.
"""
import itertools

from vf import core, sem
from vf.gen import features as FE

LEVEL = "model_checking"


# ------------------------------------------------------------------ (1) arrays
def gen_arrays(run):
    cases = []
    forms = [("1", [1]), ("2", [2]), ("&H2", [2]), ("0", [0]), ("1,2", [1, 2]), ("2,1", [2, 1]), ("1,1,2", [1, 1, 2]), ("&H1,2", [1, 2])]
    for d in core.cube(run, [("form", forms), ("kind", ["num", "str"]), ("dimmed", [True, False])]):
        btxt, bounds = d["form"]
        sfx = "$" if d["kind"] == "str" else ""
        if not d["dimmed"]:
            if btxt not in ("1", "1,2", "1,1,2"):
                continue
            bounds = [10] * len(bounds)
        idxs = list(itertools.product(*[range(b + 1) for b in bounds]))
        if len(idxs) > 140:
            # undimensioned 2/3-dimensional arrays: corners + one interior element per dimension
            pick = set()
            for corner in itertools.product(*[(0, b) for b in bounds]):
                pick.add(corner)
            pick.add(tuple(min(1, b) for b in bounds))
            pick.add(tuple(b // 2 for b in bounds))
            idxs = sorted(pick)
        lines = []
        n = 10
        if d["dimmed"]:
            lines.append(f"{n} DIM T{sfx}({btxt})")
            n += 10
        # initial values
        for chunk in [idxs[i:i + 6] for i in range(0, len(idxs), 6)]:
            lines.append(f"{n} PRINT " + ";".join(f'"<";T{sfx}({",".join(map(str, ix))});">"' for ix in chunk))
            n += 10
        # write distinct values
        for k, ix in enumerate(idxs):
            val = f'"V{k}"' if sfx else str(k + 1)
            lines.append(f"{n} T{sfx}({','.join(map(str, ix))})={val}")
            n += 10
        for chunk in [idxs[i:i + 6] for i in range(0, len(idxs), 6)]:
            lines.append(f"{n} PRINT " + ";".join(f'T{sfx}({",".join(map(str, ix))});"/"' for ix in chunk))
            n += 10
        text = "\n".join(lines) + "\n"
        feats = set()
        if not d["dimmed"] and len(bounds) >= 2:
            feats.add("implicit-array-dims>=2")
        for opts in ({"initialize_vars": True}, {"initialize_vars": True, "default_str_storage": 80}, {}):
            cases.append({"text": text, "opts": opts, "inputs": [], "features": feats | {"arrays"}, "origin": f"array {d['kind']} ({btxt}) dimmed={d['dimmed']}"})
    return cases


# ------------------------------------------------------------------ (2) DATA / READ
ITEMS = [("1", "n"), ("-2.5", "n"), ("&HFF", "n"), ('"A B"', "s"), (" C D ", "s"), ("", "e"), ('""', "s"), ("X", "s"), ("7E1", "n"), (".00005", "n"), ("2.5E-7", "n")]


def gen_data(run, quick=True, tag="data"):
    cases = []
    items = ITEMS
    shapes = []
    for n1 in (1, 2, 3):
        for combo in itertools.product(items, repeat=n1):
            shapes.append([list(combo)])
    for a in items:
        for b in items:
            shapes.append([[a], [b]])
            shapes.append([[a, b], [a]])
    run.states += len(shapes)
    run.transitions += len(shapes)
    seen = set()
    for lines_items in shapes:
        flat = [it for ln in lines_items for it in ln]
        # type-correct targets: numeric item -> numeric or string target variants; string item -> string target; empty -> both
        tvariants = []
        for it, kind in flat:
            if kind == "n":
                tvariants.append(["N"])
            elif kind == "s":
                tvariants.append(["S"])
            else:
                tvariants.append(["N", "S"])
        for tcombo in itertools.product(*tvariants):
            for place in ("before", "after"):
                for restore in (False, True):
                    if restore and (len(flat) > 2 or place == "after"):
                        continue
                    names = []
                    ni = si = 0
                    for t in tcombo:
                        if t == "N":
                            ni += 1
                            names.append(f"N{ni}" if ni != 2 else "M(1)")
                        else:
                            si += 1
                            names.append(f"S{si}$" if si != 2 else "T$(2)")
                    dl = [f"DATA " + ",".join(it for it, _ in ln) for ln in lines_items]
                    rd = "READ " + ",".join(names)
                    pr = "PRINT " + ";".join(f'{nm};"|"' for nm in names)
                    body = []
                    if place == "before":
                        body = dl + [rd, pr]
                    else:
                        body = [rd, pr] + dl
                    if restore:
                        body += ["RESTORE", "READ " + names[0], "PRINT " + names[0]]
                    text = "".join(f"{10 * (i + 1)} {b}\n" for i, b in enumerate(body))
                    if text in seen:
                        continue
                    seen.add(text)
                    feats = {tag}
                    if any(k == "e" for _, k in flat):
                        feats.add("data-empty-item")
                    if any(it == "&HFF" for it, _ in flat):
                        feats.add("data-hex-item")
                    if any(it == "7E1" for it, _ in flat):
                        feats.add("data-exp-item")
                    if "M(1)" in names or "T$(2)" in names:
                        feats.add("read-array-target")
                    cases.append({"text": text, "opts": {"initialize_vars": True}, "inputs": [], "features": feats, "origin": f"data {lines_items} -> {names} {place} restore={restore}"})
    return cases


# ------------------------------------------------------------------ (3) PRINT
def gen_print(run):
    cases = []
    args = ["A", "A$", '"X"', "TAB(3)", "B+1"]
    seps = [";", ",", " ", ""]
    seen = set()
    for n in ((0, 1, 2, 3) if run.tier == "quick" else (0, 1, 2, 3, 4)):
        for combo in itertools.product(args, repeat=n):
            for lead in ("", ";", ","):
                for sp in itertools.product(seps[:3], repeat=max(0, n - 1)):
                    for trail in ("", ";", ",", ";;", ",,"):
                        body = lead
                        for i, a in enumerate(combo):
                            body += a
                            if i < n - 1:
                                body += sp[i]
                        body += trail
                        if body in seen:
                            continue
                        seen.add(body)
                        feats = {"print"}
                        if "B+1" in combo:
                            if n > 2:
                                continue
                            feats.add("print-numeric-expression")
                        for at in ("", "@ 40,"):
                            if at and (not body or body[0] in ";,"):
                                continue
                            text = f'10 A=5:A$="HI":B=2\n20 PRINT {at}{body}\n30 PRINT "E"\n'
                            cases.append({"text": text, "opts": {"initialize_vars": True}, "inputs": [], "features": feats, "origin": f"print {at}{body!r}"})
    run.states += len(cases)
    run.transitions += len(cases)
    return cases


# ------------------------------------------------------------------ (4) INPUT
def gen_input(run):
    cases = []
    scripts = ["7", "-1.5", "HI", ""]
    for d in core.cube(run, [("line", [False, True]), ("prompt", [None, "N", "A B"]), ("targets", [["A"], ["A$"], ["A", "B$"], ["M(1)"], ["T$(1)"], ["A$", "B"]])]):
        if d["line"] and any(not t.rstrip(")").rstrip("1(").endswith("$") and "$" not in t for t in d["targets"]):
            continue
        if d["line"] and len(d["targets"]) > 1:
            continue
        kw = "LINE INPUT" if d["line"] else "INPUT"
        pr = f'"{d["prompt"]}";' if d["prompt"] is not None else ""
        text = f'10 {kw} {pr}{",".join(d["targets"])}\n20 PRINT ' + ";".join(f'"[";{t};"]"' for t in d["targets"]) + "\n"
        for ins in itertools.product(scripts, repeat=len(d["targets"])):
            ok = True
            for t, v in zip(d["targets"], ins):
                if "$" not in t and v in ("HI", ""):
                    ok = False  # ?REDO in Color BASIC: outside the fragment
            if not ok:
                continue
            feats = {"input"}
            if any("(" in t for t in d["targets"]):
                feats.add("input-array-target")
            for opts in ({"initialize_vars": True}, {"initialize_vars": True, "default_str_storage": 80}):
                cases.append({"text": text, "opts": opts, "inputs": list(ins), "features": feats, "origin": f"input {kw} {d['prompt']!r} {d['targets']} <- {ins}"})
    return cases


# ------------------------------------------------------------------ (5) string functions
def gen_strfn(run):
    cases = []
    if run.tier == "quick":
        strs = [""] + ["".join(p) for n in (1, 2, 3) for p in itertools.product("AB", repeat=n)] + [" ", "A ", " A", "A B", "  "]
    else:
        strs = [""] + ["".join(p) for n in (1, 2, 3, 4) for p in itertools.product("AB ", repeat=n)]
    for s in strs:
        lines = [f'10 S$="{s}"']
        n = 20
        exprs_s = []
        exprs_n = ["LEN(S$)"]
        for k in range(0, 5):
            exprs_s.append(f"LEFT$(S$,{k})")
            exprs_s.append(f"RIGHT$(S$,{k})")
        for p in range(1, 5):
            for k in range(0, 4):
                exprs_s.append(f"MID$(S$,{p},{k})")
        if s:
            exprs_n.append("ASC(S$)")
        for t in ["A", "B", "AB", "BA"]:
            for p in range(1, 4):
                exprs_n.append(f'INSTR({p},S$,"{t}")')
        exprs_s += ["CHR$(65)+S$", "S$+S$", f'STRING$(3,S$)' if s else 'STRING$(2,"Z")', "STRING$(0,\"Q\")"]
        for e in exprs_s:
            lines.append(f"{n} R$={e}:PRINT \"<\";R$;\">\"")
            n += 10
        for e in exprs_n:
            lines.append(f"{n} R={e}:PRINT R")
            n += 10
        text = "\n".join(lines) + "\n"
        # one program per expression keeps counterexamples minimal
        for ln in lines[1:]:
            t = lines[0] + "\n" + ln + "\n"
            f = {"strfn"}
            for fn in ("LEFT$", "RIGHT$", "MID$", "INSTR", "STRING$", "ASC", "LEN", "CHR$"):
                if fn in ln:
                    f.add("fn:" + fn)
            cases.append({"text": t, "opts": {"initialize_vars": True}, "inputs": [], "features": f, "origin": f"strfn {s!r}: {ln}"})
    for v in ["1", "-1.5", "0", "12", " 7", "1E2", "ABC", "", "3X", ".5"]:
        cases.append({"text": f'10 S$="{v}"\n20 R=VAL(S$):PRINT R\n', "opts": {"initialize_vars": True}, "inputs": [], "features": {"strfn", "fn:VAL"}, "origin": f"val {v!r}"})
    for v in ["5", "-2.5", "0", "100", "0.25", "123456"]:
        cases.append({"text": f'10 R$=STR$({v}):PRINT "<";R$;">";LEN(R$)\n', "opts": {"initialize_vars": True}, "inputs": [], "features": {"strfn", "fn:STR$"}, "origin": f"str$ {v}"})
        cases.append({"text": f'10 PRINT {v};"|";{v}\n', "opts": {"initialize_vars": True}, "inputs": [], "features": {"strfn", "print-number"}, "origin": f"print number {v}"})
    run.states += len(cases)
    run.transitions += len(cases)
    return cases


# ------------------------------------------------------------------ (6) pre-initialisation
def gen_init(run):
    """every read position x variable kind, the variable never assigned by the program, initialize_vars=True (strict)."""
    from vf.checks.c10 import POSITIONS
    cases = []
    for nm in ("V", "VX", "V1", "SQ", "PI", "DO", "SQX"):
      for pname, applies, tpl in POSITIONS:
        if pname in ("assign-target", "read", "input", "line-input", "for", "print-neg", "for-start", "for-end", "for-step", "for-step-str"):
            continue
        for kind in applies:
            if pname == "hprint" and kind in "na":
                continue  # HPRINT of a number: known C14 finding (numeric temporary for ecb_str)
            ref = {"n": nm, "s": nm + "$", "a": nm + "(1)", "z": nm + "$(1)"}[kind]
            isstr = kind in "sz"
            fill = {"v": ref, "lit": '"S"' if isstr else "5", "z": "Z$" if isstr else "Z", "bi": f"LEN( {ref} )" if isstr else f"ABS( {ref} )", "cmp": f'{ref} = "X"' if isstr else f"{ref} = 1"}
            stmt = tpl.format(**fill)
            for share in ("none", "dim-array", "implicit-array", "dim-scalar"):
                if nm != "V" and share not in ("none", "implicit-array"):
                    continue
                pre = []
                post = []
                sfx = "$" if isstr else ""
                if share == "dim-array":
                    pre = [f"DIM {nm}{sfx}(3)"]
                    if kind in "ns":
                        post = [f"{nm}{sfx}(1)={nm}{sfx}"]
                elif share == "implicit-array":
                    if kind in "az":
                        continue
                    post = [f"{nm}{sfx}(1)={nm}{sfx}"]
                elif share == "dim-scalar":
                    if kind in "az" or not isstr:
                        continue
                    pre = [f"DIM {nm}{sfx}"]
                body = pre + [stmt] + post + ["END"]
                text = "".join(f"{10 * (i + 1)} {b}\n" for i, b in enumerate(body)) + '100 PRINT "L"\n'
                for st in (32, 80):
                    cases.append({"text": text, "opts": {"initialize_vars": True, "default_str_storage": st}, "inputs": [], "features": {"init", "pos:" + pname, "share:" + share}, "origin": f"init {pname} {ref} share={share}"})
    run.states += len(cases)
    run.transitions += len(cases)
    return cases


# ------------------------------------------------------------------ (7) strings longer than BASIC09's default 32 bytes
def gen_long(run):
    """every string-producing construct carrying 33..80 characters, with the requested string size 80 / 255:
    nothing the program holds or passes through a temporary may be cut to BASIC09's default 32 bytes."""
    cases = []
    L = [33, 40, 64]
    bodies = []
    for n in L:
        bodies += [
            f'A$="<"+STRING$({n},"*")+">":PRINT LEN(A$);A$',
            f'PRINT STRING$({n},"*");"|"',
            f'B$=STRING$({n},"-"):A$=B$+HEX$(255)+"!":PRINT A$;LEN(A$)',
            f'B$=STRING$({n},"-"):IF B$+HEX$(10)=B$+"A" THEN PRINT "T"',
            f'DIM N$(2):N$(1)=STRING$({n},"x"):N$(2)=N$(1)+"y":PRINT LEN(N$(2));N$(2)',
            f'N$(1)=STRING$({n},"x"):PRINT LEN(N$(1))',
            f'B$=STRING$({n},"ab"):A$=LEFT$(B$,{n - 1})+MID$(B$,2,3):PRINT A$',
            f'B$=STRING$({n},"q"):A$=RIGHT$(B$+"r",{n}):PRINT A$;LEN(A$)',
            f'B$=STRING$({n},"q"):PRINT INSTR(1,B$+"Z","Z")',
            f'B$=STRING$({n},"q"):PRINT LEN(B$+B$)',
            f'B$=STRING$({n},"q"):A$=B$:C$=A$+"":PRINT LEN(C$)',
            f'A$=STRING$({n},CHR$(65)):PRINT A$',
            f'A$=STRING$({n},"AB")+HEX$(4096):PRINT A$',
        ]
    for b in bodies:
        for st in (80, 255):
            cases.append({"text": "10 " + b + "\n", "opts": {"initialize_vars": True, "default_str_storage": st}, "inputs": [], "features": {"long-string"}, "origin": "long: " + b})
    for n in L:
        word = "W" * n
        for st in (80, 255):
            o = {"initialize_vars": True, "default_str_storage": st}
            cases.append({"text": '10 INPUT A$:PRINT LEN(A$);A$\n', "opts": o, "inputs": [word], "features": {"long-string", "input"}, "origin": f"long input {n}"})
            cases.append({"text": '10 LINE INPUT A$:B$=A$+"!":PRINT LEN(B$)\n', "opts": o, "inputs": [word], "features": {"long-string", "input"}, "origin": f"long line input {n}"})
            cases.append({"text": f'10 READ A$,B$:PRINT LEN(A$);LEN(B$);A$\n20 DATA {word},"{word}"\n', "opts": o, "inputs": [], "features": {"long-string", "data"}, "origin": f"long data {n}"})
            cases.append({"text": f'10 DIM N$(1):READ N$(1):PRINT LEN(N$(1))\n20 DATA {word}\n', "opts": o, "inputs": [], "features": {"long-string", "data"}, "origin": f"long data array {n}"})
    run.states += len(cases)
    run.transitions += len(cases)
    return cases


def work(chunk):
    res = []
    for c in chunk:
        v = sem.compare(c["text"], c["opts"], inputs=c["inputs"], decb_horizon=3000)
        res.append((v.kind, v.symptom, v.detail, v.out))
    return res


def run(run):
    quick = run.tier == "quick"
    run.rule = ("five sub-spaces (arrays, DATA/READ, PRINT lists, INPUT scripts, string functions), each enumerated completely within its bound; every program is run under both "
                "language models; distinct = distinct (source, options, input script); non-trivial = both models produced a verdict (agree or violation)")
    run.assumptions = ["Color BASIC model vf/decb/model.py and BASIC09 model vf/b09 (three-valued; UNSPEC -> no verdict)", "ecb_str is a primitive producing Color BASIC's PRINT image of a number",
                       "numeric DATA item read into a string variable and ?REDO inputs are outside the fragment"]
    cases = []
    for name, g in (("arrays", gen_arrays), ("data", lambda r: gen_data(r, quick)), ("print", gen_print), ("input", gen_input), ("strfn", gen_strfn), ("init", gen_init), ("long", gen_long)):
        if run.only and name not in run.only:
            continue
        cs = g(run)
        run.count("cases:" + name, len(cs))
        cases += cs
    i = 0
    decided = 0
    for res in core.pmap(work, cases, chunk=60):
        for kind, sym, detail, out in res:
            c = cases[i]
            i += 1
            run.evaluations += 1
            run.count("verdict:" + kind + (":" + sym if kind in ("noverdict", "outside", "refused") else ""))
            if kind in ("agree", "violation"):
                decided += 1
            if i % 3000 == 1:
                run.sample({"source": c["text"], "opts": c["opts"], "inputs": c["inputs"], "verdict": kind, "symptom": sym})
            if kind == "violation":
                feats = set(c["features"]) | FE.source_features(c["text"])
                if "initialize_vars" not in c["opts"]:
                    feats.add("no-init")
                run.violation(sym, feats, {"text": c["text"], "opts": c["opts"], "inputs": c["inputs"]}, f"{c['origin']}: {detail}\nsource: {c['text']!r}\noutput: {out!r}"[:1500])
    run.distinct_n = decided


def replay(case):
    v = sem.compare(case["text"], case["opts"], inputs=case["inputs"], decb_horizon=3000)
    return {"verdict": v.kind, "symptom": v.symptom, "detail": v.detail, "violations": [v.symptom] if v.kind == "violation" else []}
