"""C17 Compression is transparent: any valid encoding decodes to the original image.

A nondeterministic reference encoder (vf/img/formats.py) turns (image, choice sequence)
into one valid encoding; choice 0 everywhere is the canonical greedy encoding.  The
explorer enumerates every choice sequence with at most d non-default choices (d = 1 in
the quick tier, 2 in the thorough tier) for a set of structured pictures, decodes each
with the real tool and compares the pixels with the reference rendering of the original
picture (and with the decode of the uncompressed form where the format has one).
"""
from vf import core
from vf.core import Explorer
from vf.img import cases as C
from vf.img import formats as F
from vf.img import tools as T

LEVEL = "model_checking"


def pictures(n, rowb, lowmask=0xFF):
    """Structured pictures with few maximal runs but all the interesting boundaries."""
    pics = {}
    m = lowmask
    # 1. constant -> long runs that must be split at 255 / 127
    pics["constant"] = bytes([0x35 & m]) * n
    # 2. runs that end exactly at / one past / one before row ends, run lengths 1,2,3,254..257
    b = bytearray()
    v = 0x10
    for ln in [rowb, rowb - 1, 1, rowb + 1, 2, 254, 255, 256, 257, 3, 1, 1, 128, 129, 127, 2 * rowb, 5]:
        b += bytes([v & m]) * ln
        v = (v + 0x21) & 0x77
    while len(b) < n:
        b += bytes([v & m]) * min(1000, n - len(b))
        v = (v + 0x21) & 0x77
    pics["boundaries"] = bytes(b[:n])
    # 3. row-periodic: identical consecutive rows (CM3 copy-up), then a changed row
    row_a = bytes(((i // 20) * 0x11 + 1) & 0x77 for i in range(rowb))
    row_b = bytes(((i // 40) * 0x12 + 2) & 0x77 for i in range(rowb))
    rows = n // rowb
    b = bytearray()
    for r in range(rows):
        b += row_a if (r // 3) % 2 == 0 else row_b
    b += bytes(n - len(b))
    pics["rowperiodic"] = bytes(b)
    # 4. single differing byte at row ends / starts, rest constant
    b = bytearray([0x22 & m]) * n
    for p in (0, rowb - 1, rowb, 2 * rowb - 1, n // 2, n - rowb, n - 1):
        b[p] = 0x47 & m
    pics["spikes"] = bytes(b)
    # 5. every byte different from its neighbours in the first rows (literals), runs afterwards
    b = bytearray()
    for i in range(3 * rowb):
        b.append((i * 7 + 3) & 0x77)
    while len(b) < n:
        b += bytes([(len(b) // 300) & 0x77]) * min(300, n - len(b))
    pics["literals"] = bytes(b[:n])
    return pics


DEEP = {"mge boundaries", "rat boundaries", "cm3 spikes two=False", "vef boundaries type=0", "vef literals type=3"}
SPACES = []  # choice trees of the reference encoders; filled by gen() before the worker pool is forked


def add_space(run, cases, name, build, expect, feats, max_dev, tool):
    """Registers one encoder choice tree and splits it into independent work items: the default (greedy) encoding and one
    subtree per first deviation (position, alternative); a worker explores its subtree to the remaining deviation budget,
    decodes every distinct encoding with the real tool and judges it."""
    if max_dev and max_dev > 1 and name not in DEEP:
        max_dev = 1  # two deviations only for one picture per format (the others keep every single deviation)
    si = len(SPACES)
    SPACES.append({"name": name, "build": build, "expect": expect, "features": list(feats), "max_dev": max_dev, "tool": tool})
    ch = core.Chooser(())
    build(ch)
    cases.append(("sub", si, (), 0))
    n = 1
    if max_dev:
        zeros = ()
        for pos, (c, arity) in enumerate(ch.trace):
            for alt in range(1, arity):
                cases.append(("sub", si, (0,) * pos + (alt,), max_dev))
                n += 1
    run.count("work_items:" + name.split(" ")[0], n)


def explore_item(item, scratch):
    """-> (stats, [result]) for one ("sub", space, prefix, budget) item"""
    _, si, prefix, budget = item
    sp = SPACES[si]
    ex = Explorer(sp["build"], max_dev=budget, roots=[prefix])
    seen = set()
    out = []
    for data, choices in ex:
        if data in seen:
            continue
        seen.add(data)
        case = {"tool": sp["tool"], "data": data, "expect": sp["expect"], "label": sp["name"]}
        oc = T.run_tool(sp["tool"], data, [], scratch)
        v = judge(case, oc)
        out.append({"label": sp["name"], "tool": sp["tool"], "features": sp["features"] + ["deviations:%d" % sum(1 for c in choices if c)], "choices": list(choices)[:400], "len": len(data),
                    "head_hex": data[:48].hex(), "key": hash(data), "verdict": v})
    return {"states": ex.states, "transitions": ex.transitions, "leaves": ex.leaves, "name": sp["name"]}, out


def gen(run):
    quick = run.tier == "quick"
    d = 1 if quick else 2
    cases = []
    pal = C.palette(13)
    # ---------------- MGE
    pics = pictures(32000, 160)
    names = ["constant", "boundaries", "spikes"] if quick else sorted(pics)
    for nm in names:
        body = pics[nm]
        exp = ("pnm", F.expected_ppm_from_bytes(body, pal, 320, 200))
        cases.append(("raw", {"tool": "mge", "data": F.mge_raw_file(pal, body), "expect": exp, "features": ["mge", "raw-form"], "label": f"mge raw {nm}", "choices": []}))
        add_space(run, cases, f"mge {nm}", lambda ch, body=body: F.mge_rle_file(pal, body, ch), exp, ["mge"], d, "mge")
    # composite-palette MGE: the expected picture is what the same decoder makes of the uncompressed form (differential oracle)
    body = pics["boundaries"]
    pal2 = list(reversed(C.palette(29, step=3)))
    raw_cmp = F.mge_raw_file(pal2, body, rgb_flag=1)
    add_space(run, cases, "mge boundaries composite-palette", lambda ch, body=body: F.mge_rle_file(pal2, body, ch, rgb_flag=1), ("diff", "mge", raw_cmp), ["mge", "composite-palette"], d, "mge")
    # ---------------- RAT (low nibbles < 8 so that the known `& 7` finding does not mask other defects)
    pics = pictures(199 * 160, 160, lowmask=0x77)
    for pi, nm in enumerate(names):
        body = pics[nm]
        palr = C.palette(13 + 11 * pi, step=5 + 2 * pi)
        exp = ("pnm", F.expected_ppm_from_bytes(body, palr, 320, 199))
        add_space(run, cases, f"rat {nm}", lambda ch, body=body, palr=palr: F.rat_file(palr, body, ch), exp, ["rat"], d, "rat")
    body = bytes((b | 0x08) if i % 5 == 0 else b for i, b in enumerate(pics["boundaries"]))
    exp = ("pnm", F.expected_ppm_from_bytes(body, pal, 320, 199))
    add_space(run, cases, "rat lownibble>=8", lambda ch, body=body: F.rat_file(pal, body, ch), exp, ["rat", "rat-low-nibble>=8"], 0, "rat")
    # ---------------- CM3
    for two in ([False, True]):
        rows = 384 if two else 192
        pics = pictures(rows * 160, 160)
        for nm in (["rowperiodic", "spikes"] if quick else ["rowperiodic", "spikes", "boundaries", "literals"]):
            body = pics[nm]
            exp = ("pnm", F.expected_ppm_from_bytes(body, pal, 320, rows))
            if nm == "rowperiodic":
                cases.append(("raw", {"tool": "cm3", "data": F.cm3_raw_file(pal, body, two, True), "expect": exp, "features": ["cm3", "raw-form"], "label": f"cm3 raw {nm} two={two}", "choices": []}))
            add_space(run, cases, f"cm3 {nm} two={two}", lambda ch, body=body, two=two: F.cm3_coded_file(pal, body, ch, two, not two), exp, ["cm3"], d if not quick else 1, "cm3")
    # ---------------- VEF squashed
    for vt in (0, 1, 3):
        t = F.VEF_TYPES[vt]
        pics = pictures(t["rec"] * 400, t["rowbytes"])
        for nm in (["boundaries", "literals"] if quick else ["boundaries", "spikes", "literals", "constant"]):
            body = pics[nm]
            exp = ("png", vt, pal, body)
            cases.append(("raw", {"tool": "vef", "data": F.vef_raw_file(pal, body, vt), "expect": exp, "features": ["vef", "raw-form"], "label": f"vef raw {nm} type={vt}", "choices": []}))
            add_space(run, cases, f"vef {nm} type={vt}", lambda ch, body=body, vt=vt: F.vef_squashed_file(pal, body, vt, ch), exp, ["vef"], d, "vef")
    return cases


_REF = {}


def judge(case, oc):
    if oc.status != "ok":
        return ("decoder-failed:" + oc.status.split(":")[0], oc.status + " " + oc.detail)
    exp = case["expect"]
    try:
        if exp[0] == "diff":
            key = (exp[1], hash(exp[2]))
            if key not in _REF:
                ro = T.run_tool(exp[1], exp[2], [], work.scratch)
                _REF[key] = ro.out if ro.status == "ok" else None
            if _REF[key] is None:
                return None  # the uncompressed form itself is not decoded: C16's business
            exp = ("pnm", _REF[key])
        if exp[0] == "pnm":
            rw, rh, rch, rpay = F.pnm_pixels(exp[1])
            gw, gh, gch, payload = F.pnm_pixels(oc.out)
            if (gw, gh, gch) != (rw, rh, rch):
                return ("wrong-dimensions", f"{gw}x{gh} != {rw}x{rh}")
            i = C.first_diff(payload, rpay)
            if i >= 0:
                px = i // 3
                return ("pixel-differs", f"first difference at pixel {px} (row {px // gw}, col {px % gw}): got {payload[px*3:px*3+3].hex()} expected {rpay[px*3:px*3+3].hex()}")
        else:
            _, vt, pal, body = exp
            img = F.parse_png(oc.out)
            ref = F.vef_expected_rgb(pal, body, vt)
            if (img["width"], img["height"]) != (len(ref[0]), len(ref)):
                return ("wrong-dimensions", f"{img['width']}x{img['height']}")
            for y, (g, r) in enumerate(zip(img["rgb"], ref)):
                if [tuple(p) for p in g] != r:
                    x = next(i for i in range(len(r)) if tuple(g[i]) != r[i])
                    return ("pixel-differs", f"row {y} col {x}: got {tuple(g[x])} expected {r[x]}")
    except F.BadImage as e:
        return ("unparsable-output", str(e))
    return None


def work(chunk):
    res = []
    for item in chunk:
        if item[0] == "raw":
            case = item[1]
            oc = T.run_tool(case["tool"], case["data"], [], work.scratch)
            v = judge(case, oc)
            res.append((None, [{"label": case["label"], "tool": case["tool"], "features": case["features"], "choices": [], "len": len(case["data"]), "head_hex": case["data"][:48].hex(),
                                "key": hash(case["data"]), "verdict": v}]))
        else:
            res.append(explore_item(item, work.scratch))
    return res


def run(run):
    run.rule = ("states/transitions = nodes/edges of the encoder's choice tree explored with the stated deviation bound; each distinct encoding (file bytes) "
                "is decoded by the real tool; non-trivial = encoding differs from the canonical greedy one or is the canonical one of a picture")
    run.assumptions = ["validity of an encoding is defined by the reference encoder (runs <= 255 / 127, terminator, escape rules, CM3 selector bits)",
                       "RAT pictures use low nibbles < 8 except the dedicated known-finding picture"]
    del SPACES[:]
    items = gen(run)
    work.scratch = run.scratch_dir()
    run.states += len(SPACES)
    i = 0
    keys = set()
    for res in core.pmap(work, items, chunk=1):
        for stats, outs in res:
            if stats:
                run.states += stats["states"]
                run.transitions += stats["transitions"]
                run.count("choice_sequences", stats["leaves"])
                run.count("encodings:" + stats["name"].split(" ")[0], len(outs))
            for o in outs:
                i += 1
                run.evaluations += 1
                keys.add(o["key"])
                if i % 700 == 1:
                    run.sample({"label": o["label"], "choices": o["choices"][:60], "file_len": o["len"], "head_hex": o["head_hex"]})
                v = o["verdict"]
                if v:
                    run.violation(v[0], o["features"], {"tool": o["tool"], "label": o["label"], "choices": o["choices"], "data_len": o["len"]}, f"{o['label']} choices={o['choices'][:40]}: {v[1]}")
    run.distinct_n = len(keys)
    run.caps.append("deviation bound d=1 (choice sequences with more non-default encoder choices are not explored)" if run.tier == "quick" else
                    "deviation bound d=2 for one picture per format (%s), d=1 for the other pictures" % ", ".join(sorted(DEEP)))


def replay(case):
    return {"violations": [], "note": "re-run the deterministic check; the encoding is identified by label + choices: %s %s" % (case.get("label"), case.get("choices"))}
