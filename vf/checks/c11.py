"""C11 Each option changes only the aspect of the output it documents.

Space: corpus (every catalogue statement + interacting programs) x all 32 combinations of
{filter_unused_linenum, initialize_vars, default_width32, output_dependencies,
default_str_storage in {32,80}}; every single-option flip (80 edges of the 5-cube) is
checked per program with a metamorphic relation computed independently of the tool.
CLI: all 2^5 flag subsets (+ -c) on a sub-corpus through decb_to_b09.start.
"""
import io
import itertools
import os
import re
import sys

from vf import core, tool
from vf.b09 import syntax as S
from vf.gen import catalogue as K

LEVEL = "model_checking"
OPTS = ["filter_unused_linenum", "initialize_vars", "default_width32", "output_dependencies", "str80"]


def corpus():
    progs = []
    for n, s, a in K.CATALOGUE:
        progs.append((n, K.program_for([s])))
    progs.append(("mix1", K.program_for(["DIM M( 3 ) , N$( 2 ) , S$", "FOR I = 1 TO 3", 'INPUT "X" ; A$', "READ B", "M( I ) = B : N$( 1 ) = A$ + S$", "NEXT", "DATA 1 , , 3", "GOTO 100"])))
    progs.append(("mix2", '0 CLS\n10 PRINT "HI";Q(2);R$(1)\n20 GOTO 10\n'))
    progs.append(("mix3", '10 ON ERR GOTO 100\n20 ON BRK GOTO 110\n30 A=1/B:IF A THEN 30\n100 PRINT ERNO\n110 END\n'))
    progs.append(("mix4", '0 A$="X":B$=STRING$(3,A$)+HEX$(10)+STR$(2)\n5 GOSUB 0\n7 PLAY B$:HDRAW A$:A=JOYSTK(0)\n'))
    progs.append(("mix5", '10 DIM A$,B$(2),C(1,2)\n20 A$=INKEY$:B$(1)=A$:C(0,1)=VAL(A$)\n30 IF C(0,1)>0 THEN 10 ELSE IF C(0,1)<0 THEN 20 ELSE 30\n'))
    progs.append(("ctl-chars", '10 PRINT "PAGE\x0cBREAK"\n20 A$="X\x1cY":B$="\x85\x0b\x1d\x1e"\n30 REM \x0c \x85 \x1c\n40 DATA A\x0bB,"C\x0cD"\n50 GOTO 10\n'))
    progs.append(("big-line", '10 PRINT "A"\n20 GOTO 10\n40000 PRINT "B"\n'))
    progs.append(("big-line-ref", '10 PRINT "A"\n20 GOTO 32699\n32699 PRINT "B"\n'))
    # statement templates with the operand shapes that make the tool hoist calls / allocate temporaries (every option must still
    # change only its own aspect when the statement is not a plain one)
    from vf.gen import spaces
    num = dict(K.NUM_SHAPES)
    strs = dict(K.STR_SHAPES)
    for name, body, after in K.TEMPLATES:
        sl = K.slots(body)
        if not sl:
            continue
        for kn, ks in (("conv", "conv"), ("two_conv", "inkey"), ("conv_elem", "conv_in_builtin")):
            filled = K.fill(body, [num[kn] if x == "n" else strs[ks] for x in sl])
            progs.append((f"tpl:{name}:{kn}/{ks}", K.template_program(filled, after)))
    progs.append(("mix6", '10 X=1\n20 IF X=1 THEN X=2:GOTO 40\n30 X=3\n40 PRINT X\n'))
    return progs


def mk(bits):
    o = {"filter_unused_linenum": bits[0], "initialize_vars": bits[1], "default_width32": bits[2], "output_dependencies": bits[3], "default_str_storage": 80 if bits[4] else 32,
         "procname": "prog"}
    return o


def jump_targets(text):
    try:
        procs = S.parse(text)
    except S.B09SyntaxError:
        return None
    t = set()
    for p in procs:
        for s in S.walk(p.body):
            if s.kind in ("goto", "gosub", "ifgoto"):
                t.add(s.a["target"])
            elif s.kind == "on":
                t |= set(s.a["targets"])
            elif s.kind == "onerror" and s.a["target"] is not None:
                t.add(s.a["target"])
            elif s.kind == "restore" and s.a["target"] is not None:
                t.add(s.a["target"])
    return t


def user_part(text, deps):
    if not deps:
        return text
    i = text.rfind("\nprocedure prog\n")
    if text.startswith("procedure prog\n"):
        i = -1
    return text[i + 1:] if i >= 0 or text.startswith("procedure prog\n") else text


INIT_LINE = re.compile(
    r'^\s*(LET )?(arr_)?[A-Z][A-Z0-9]?\$? := (0\.0|0|"")$'
    r'|^(FOR tmp_\d+ = 0 TO [^\\]+ \\ )+arr_[A-Z][A-Z0-9]?\$?\([^\\]*\) := (0|"") (\\ NEXT tmp_\d+\s*)+$'
    r"|^$"
)


def rel_filter(off, on, deps):
    """on must equal off with the labels of unreferenced lines stripped."""
    refs = jump_targets(user_part(off, deps))
    if refs is None:
        return None
    out = []
    in_user = not deps
    for ln in off.split("\n"):
        if deps and ln.strip() == "procedure prog":
            in_user = True
        m = re.match(r"^(\d+) (.*)$", ln)
        if in_user and m and int(m.group(1)) not in refs:
            out.append(m.group(2))
        else:
            out.append(ln)
    exp = "\n".join(out)
    if exp != on:
        a, b = exp.split("\n"), on.split("\n")
        k = next((i for i in range(min(len(a), len(b))) if a[i] != b[i]), min(len(a), len(b)))
        return f"expected line {k}: {a[k:k+1]} got {b[k:k+1]} (referenced: {sorted(refs)})"
    return None


def rel_init(off, on, deps):
    a, b = off.split("\n"), on.split("\n")
    i = 0
    extra = []
    for ln in b:
        if i < len(a) and ln == a[i]:
            i += 1
        else:
            extra.append(ln)
    if i != len(a):
        return f"the output without pre-initialisation is not a subsequence of the output with it (stuck at line {i}: {a[i:i+1]})"
    for ln in extra:
        if not INIT_LINE.match(ln):
            return f"pre-initialisation added a line that is neither a prologue assignment nor an array fill loop: {ln!r}"
    return None


def rel_width(off, on, deps):
    a, b = off.split("\n"), on.split("\n")
    if len(a) != len(b):
        return "different number of lines"
    diff = [(x, y) for x, y in zip(a, b) if x != y]
    if len(diff) != 1 or not re.fullmatch(r"RUN _ecb_start\(display, 0\)", diff[0][0].strip()) or not re.fullmatch(r"RUN _ecb_start\(display, 1\)", diff[0][1].strip()):
        return f"lines that differ: {diff[:3]}"
    return None


def rel_deps(off, on, deps):
    # on = <library procedures> + "procedure prog" + off
    marker = "procedure prog\n"
    i = on.rfind("\n" + marker)
    if on.startswith(marker):
        head, tail = "", on[len(marker):]
    elif i >= 0:
        head, tail = on[: i + 1], on[i + 1 + len(marker):]
    else:
        return "no 'procedure prog' header in the dependency output"
    if tail.rstrip() != off.rstrip():
        a, b = tail.rstrip().split("\n"), off.rstrip().split("\n")
        k = next((j for j in range(min(len(a), len(b))) if a[j] != b[j]), min(len(a), len(b)))
        return f"user procedure differs at line {k}: {a[k:k+1]} vs {b[k:k+1]}"
    for blk in re.split(r"(?m)^(?=procedure )", head):
        if blk.strip() and not re.match(r"procedure _?ecb_\w+\n", blk):
            return f"unexpected text before the user procedure: {blk[:60]!r}"
    return None


def erase_sizes(t):
    t = re.sub(r"(?m)^DIM [A-Za-z_0-9]+\$:STRING\[\d+\]\n", "", t)
    t = re.sub(r": ?STRING\[\d+\]", ": STRING", t)
    t = re.sub(r"(?m)^(\s*(?:\d+ )?DIM [^:\n]*): STRING$", r"\1", t)
    return t


def rel_size(off, on, deps):
    a, b = erase_sizes(off), erase_sizes(on)
    if a != b:
        x, y = a.split("\n"), b.split("\n")
        k = next((j for j in range(min(len(x), len(y))) if x[j] != y[j]), min(len(x), len(y)))
        return f"after erasing STRING[n] annotations and allocation lines the texts differ at line {k}: {x[k:k+1]} vs {y[k:k+1]}"
    alloc = set(re.findall(r"(?m)^DIM ([A-Za-z_0-9]+\$):STRING\[\d+\]$", on))
    dimmed = set()
    for ln in re.findall(r"(?m)^\s*(?:\d+ )?DIM ([^\n:]*): STRING\[\d+\]\s*$", on):  # the program's own DIM statements are written ': STRING[n]
        dimmed |= {x.strip().split("(")[0] for x in ln.split(",") if "$" in x}
    both = sorted(alloc & dimmed)
    if both:
        return f"with the string size set, {both} is declared by the program's own DIM and again by an allocation line"
    if "STRING[32]" in on or re.search(r"STRING\[(?!80\])\d+\]", on.replace("STRING[5]", "").replace("STRING[80]", "")):
        pass
    return None


RELS = [("label-filter", rel_filter), ("pre-initialisation", rel_init), ("width-flag", rel_width), ("dependencies", rel_deps), ("string-size", rel_size)]


def judge(prog):
    name, text = prog
    outs = {}
    for bits in itertools.product([False, True], repeat=5):
        r = tool.convert(text, **mk(bits))
        outs[bits] = r
    v = []
    kinds = {r.kind for r in outs.values()}
    if len(kinds) > 1:
        v.append(("acceptance-depends-on-options", f"outcomes {sorted(kinds)}", None))
        return v, 32
    if not outs[(False,) * 5].ok:
        return v, 32
    for bits in outs:
        for i in range(5):
            if bits[i]:
                continue
            hi = bits[:i] + (True,) + bits[i + 1:]
            off, on = outs[bits].text, outs[hi].text
            msg = RELS[i][1](off, on, bits[3])
            if msg:
                v.append((f"option-leak:{RELS[i][0]}", f"flipping {OPTS[i]} with the other options {dict(zip(OPTS, bits))}: {msg}", {"bits": list(bits), "flip": i}))
    # two non-default sizes give the same text up to the number: the size value, above or below the built-in 32, decides
    # nothing but the number written in the declarations (checked with the other four options all off and all on)
    n = 32
    for rest in ((False,) * 4, (True,) * 4):
        big = outs[rest + (True,)]
        o = mk(rest + (True,))
        o["default_str_storage"] = 16
        small = tool.convert(text, **o)
        n += 1
        if small.kind != big.kind:
            v.append(("acceptance-depends-on-options", f"size 80: {big.kind}, size 16: {small.kind}", None))
        elif big.ok and "[16]" not in big.text:
            # line by line: equal, or equal once the requested number is swapped (the library has fixed sizes of its own)
            x, y = big.text.split("\n"), small.text.split("\n")
            k = next((j for j in range(min(len(x), len(y))) if x[j] != y[j] and x[j].replace("[80]", "[16]") != y[j]), None)
            if k is None and len(x) != len(y):
                k = min(len(x), len(y))
            if k is None:
                continue
            v.append(("option-leak:string-size", f"sizes 80 and 16 with the other options {rest} give texts that differ in more than the number, at line {k}: {x[k:k+1]} vs {y[k:k+1]}",
                      {"bits": list(rest) + [True], "flip": 4, "sizes": [80, 16]}))
    return v, n


def work(chunk):
    return [judge(p) for p in chunk]


FLAGS = [("-l", "filter_unused_linenum", True), ("-z", "initialize_vars", False), ("-D", "output_dependencies", False), ("-w", "default_width32", False), ("-s", "default_str_storage", 80)]


def cli(run, scratch):
    import importlib
    m = importlib.import_module("coco.decb_to_b09")
    progs = corpus()
    sub = [p for i, p in enumerate(progs) if i % 8 == 0][:20] + progs[-6:]
    d = os.path.join(scratch, "cli11")
    os.makedirs(d, exist_ok=True)
    cfg = os.path.join(d, "cfg.yaml")
    with open(cfg, "w") as f:
        f.write("string_configs:\n  strname_to_size:\n    A$: 100\n    N$(): 120\n")
    for (name, text) in sub:
        for stem_in, stem_out in (("alpha", "beta"), ("same", "same")):
            for bits in itertools.product([False, True], repeat=5):
                for use_cfg in ((False, True) if bits == (False,) * 5 or bits == (True,) * 5 else (False,)):
                    run.states += 1
                    run.transitions += 1
                    argv = []
                    opts = {"filter_unused_linenum": False, "initialize_vars": True, "output_dependencies": True, "default_width32": True, "default_str_storage": 32}
                    for b, (flag, key, val) in zip(bits, FLAGS):
                        if b:
                            argv.append(flag)
                            if flag == "-s":
                                argv.append("80")
                            opts[key] = val
                    if use_cfg:
                        argv += ["-c", cfg]
                        cm = tool.mods()["configs"]
                        opts["compiler_configs"] = cm.CompilerConfigs(string_configs=cm.StringConfigs(strname_to_size={"A$": 100, "N$()": 120}))
                    inp = os.path.join(d, stem_in + ".bas")
                    outp = os.path.join(d, stem_out + ".b09")
                    with open(inp, "w", newline="") as f:
                        f.write(text)
                    old = sys.stdout, sys.stderr
                    err = None
                    try:
                        sys.stdout, sys.stderr = io.StringIO(), io.StringIO()
                        try:
                            m.start(argv + [inp, outp])
                        except SystemExit as e:
                            err = f"SystemExit({e.code})"
                        except Exception as e:  # noqa
                            err = type(e).__name__
                    finally:
                        sys.stdout, sys.stderr = old
                    run.evaluations += 1
                    exp = tool.convert(text, procname=stem_in, **opts)
                    case = {"gen": "cli", "program": text, "argv": argv, "in": stem_in + ".bas", "out": stem_out + ".b09"}
                    if err or not exp.ok:
                        if (err is None) != exp.ok:
                            run.violation("cli-outcome-differs", {"cli"}, case, f"start({argv}) -> {err}; convert -> {exp.kind}")
                        continue
                    got = open(outp, "r", newline="").read()  # same default text encoding as the tool's argparse.FileType("w")
                    want = exp.text.replace("\n", "\r")
                    if got != want:
                        k = next((i for i in range(min(len(got), len(want))) if got[i] != want[i]), min(len(got), len(want)))
                        run.violation("cli-output-differs", {"cli"}, case, f"start({argv + [stem_in + '.bas', stem_out + '.b09']}): file differs from convert(...) at byte {k}: {got[max(0,k-30):k+30]!r} vs {want[max(0,k-30):k+30]!r}")
                    if "\n" in got:
                        run.violation("cli-line-ends", {"cli"}, case, "LF found in the written file (OS-9 line ends are CR)")


def cli_names(run, scratch):
    """the procedure is named after the input file: every stem shape the OS-9 / BASIC09 naming rules allow"""
    import importlib
    m = importlib.import_module("coco.decb_to_b09")
    d = os.path.join(scratch, "cli11n")
    os.makedirs(d, exist_ok=True)
    text = '10 A$=INKEY$:PRINT STR$(1);A$\n20 GOTO 10\n'
    stems = ["alpha", "A", "x1", "9lives", "a_b", "_u", "star-trek", "my-prog-2", "-", "a-", "Z9_-x", "UPPER", "p" * 29]
    for stem in stems:
        for ext in (".bas", ".BAS", ".txt", ""):
            for flags in ([], ["-l", "-z"], ["-w", "-s", "80"]):
                run.states += 1
                run.transitions += 1
                run.evaluations += 1
                inp = os.path.join(d, stem + ext)
                outp = os.path.join(d, "out.b09")
                with open(inp, "w", newline="") as f:
                    f.write(text)
                old = sys.stdout, sys.stderr
                err = None
                try:
                    sys.stdout, sys.stderr = io.StringIO(), io.StringIO()
                    try:
                        m.start(flags + [inp, outp])
                    except SystemExit as e:
                        err = f"SystemExit({e.code})"
                    except Exception as e:  # noqa
                        err = type(e).__name__
                finally:
                    sys.stdout, sys.stderr = old
                os.remove(inp)
                case = {"gen": "cli-name", "stem": stem, "ext": ext, "flags": flags}
                if err:
                    continue  # crashes are C15's business
                got = open(outp, "r", newline="").read()
                heads = re.findall(r"(?im)^procedure[ \t]+(\S+)[ \t]*$", got.replace("\r", "\n"))
                if not heads or heads[-1] != stem:
                    run.violation("cli-procedure-name", {"cli", "cli-name"}, case, f"start({flags + [stem + ext, 'out.b09']}): the program's procedure is named {heads[-1] if heads else None!r}, expected {stem!r}")


def run(run):
    run.rule = ("per program all 32 option sets are converted and all 80 single-option flips are checked with the relation documented for the flipped option; "
                "CLI: 32 flag subsets (+ config file) x 2 file-name pairs x sub-corpus; distinct = programs; non-trivial = accepted")
    run.assumptions = ["relations: filter = strip labels of unreferenced lines (targets parsed from the unfiltered output); init = added lines are prologue assignments / fill loops; width = _ecb_start flag; deps = library + header + same body; size = equal modulo STRING[n] annotations/allocation lines"]
    progs = corpus()
    run.states += len(progs) * 32
    run.transitions += len(progs) * 80
    i = 0
    acc = 0
    for res in core.pmap(work, progs, chunk=4):
        for verdicts, n in res:
            name, text = progs[i]
            i += 1
            run.evaluations += n
            acc += 1
            if i % 40 == 1:
                run.sample({"program": text, "option_sets": 32, "edges_checked": 80, "verdicts": [x[0] for x in verdicts]})
            for sym, detail, extra in verdicts:
                run.violation(sym, {"prog:" + name}, {"gen": "flip", "name": name, "text": text, "extra": extra}, f"{name}: {detail}\nsource: {text!r}")
    run.distinct_n = acc
    cli(run, run.scratch_dir())
    cli_names(run, run.scratch_dir())


def replay(case):
    if case.get("gen") == "flip":
        v, _ = judge((case["name"], case["text"]))
        return {"violations": [[a, b] for a, b, c in v]}
    return {"violations": [], "note": "CLI case: rerun the check"}
