"""C15 Any input is either converted or refused with a documented error.

Spaces (each enumerated completely within its bound): token mutations of every catalogue
statement (delete / duplicate / swap / replace by each member of a hostile alphabet; one
deviation in the quick tier, two in the thorough tier), literal spellings in several
contexts, all short strings over a hostile character alphabet, option sets x corpus,
configuration maps, size extremes, and CLI file names.
Oracle: outcome is text or a documented refusal; anything else is an internal exception;
a single call exceeding 30 s is a hang.
"""
import io
import itertools
import os
import re
import sys

from vf import core, tool
from vf.gen import catalogue as K

LEVEL = "model_checking"

HOSTILE = ["(", ")", ",", ":", ";", '"', "$", "=", "-", "&", "E", ".", "0", "THEN", "ELSE", "NEXT", "GOTO", "&H", "A", "1E", "--1"]
CHARS = ["1", "0", " ", "A", "$", '"', ":", ",", "(", "=", "\n", "\x00", ".", "E", "-", "&"]


def render(toks):
    """Natural layout: tokens separated by single blanks (content tokens verbatim)."""
    out = []
    for t in toks:
        if isinstance(t, tuple):
            if t[0] == "TEXT":
                if out:
                    out[-1] = out[-1] + t[1]
                else:
                    out.append(t[1])
            else:
                out.append(t[1])
        else:
            out.append(t)
    return " ".join(out)


def features_of(text):
    """Input-side features used by known-finding patterns."""
    f = set()
    code = re.sub(r'"[^"\n]*"?', '""', text)
    code = re.sub(r"(REM|').*", "", code)
    if re.search(r"(\d|\.) *E *[+\-]? *(?![\d ])", code) or re.search(r"(\d|\.) *E *[+\-]? *$", code, re.M) or re.search(r"\d *E *[+\-]? +(?!\d)", code):
        f.add("literal:exp-without-digits")
    if re.search(r"[+\-] *[+\-]", code):
        f.add("literal:double-sign")
    if re.search(r"(?<![\d.])\.(?![\d])", code):
        f.add("literal:lone-dot")
    if re.search(r"& *H +[0-9A-F]", code):
        f.add("hex-literal-blank-after-H")
    if re.search(r"DATA", code) and re.search(r"&", code) and re.search(r"DATA *,|, *,|, *$|, *:", code, re.M):
        f.add("data-hex-with-empty")
    if re.search(r"HCIRCLE.*, *($|:|ELSE)", code, re.M):
        f.add("hcircle-trailing-comma")
    return f


def gen_mutations(run, depth):
    cases = []
    seen = set()

    def emit(name, toks, how):
        stmt = render(toks)
        prog = K.program_for([stmt])
        if prog in seen:
            return
        seen.add(prog)
        cases.append({"text": prog, "opts": {}, "origin": f"{name}:{how}", "gen": "mut"})

    def muts(toks):
        n = len(toks)
        for i in range(n):
            yield toks[:i] + toks[i + 1 :], f"del{i}"
            yield toks[: i + 1] + [toks[i]] + toks[i + 1 :], f"dup{i}"
            if i + 1 < n:
                yield toks[:i] + [toks[i + 1], toks[i]] + toks[i + 2 :], f"swap{i}"
            for h in HOSTILE:
                if toks[i] != h:
                    yield toks[:i] + [h] + toks[i + 1 :], f"rep{i}={h}"
                    if depth > 1 or i in (0, n - 1):
                        pass
            for h in ("(", ")", ",", '"', "-", "E"):
                yield toks[:i] + [h] + toks[i:], f"ins{i}={h}"

    for name, stmt, _alt in K.CATALOGUE:
        toks = K.tokens(stmt)
        emit(name, toks, "orig")
        st = 1
        for m1, how1 in muts(toks):
            emit(name, m1, how1)
            st += 1
            if depth > 1 and len(toks) <= 12:
                for m2, how2 in muts(m1):
                    emit(name, m2, how1 + "+" + how2)
                    st += 1
        run.states += st
        run.transitions += st
    return cases


CONTEXTS = [
    ("then", "IF A = 1 THEN {}"),
    ("else", 'IF A = 1 THEN PRINT "T" ELSE {}'),
    ("then_else", "IF A = 1 THEN {} ELSE {}"),
    ("elseif_arm", 'IF A = 1 THEN PRINT "T" ELSE IF A = 2 THEN {}'),
    ("elseif_else", 'IF A = 1 THEN PRINT "T" ELSE IF A = 2 THEN PRINT "U" ELSE {}'),
    ("elseif_both", "IF A = 1 THEN {} ELSE IF A = 2 THEN {} ELSE {}"),
    ("nested_then", "IF A = 1 THEN IF B = 2 THEN {} ELSE {}"),
    ("colon_after", "B = 2 : {}"),
    ("colon_before", "{} : B = 2"),
    ("for_body", "FOR I = 1 TO 2 : {}\n15 NEXT I"),
    ("twice", "{} : {}"),
]


def gen_contexts(run):
    """catalogue x contexts, templates x operand shapes, templates x key shapes x contexts (vf/gen/spaces.py)."""
    from vf.gen import spaces
    cases = []
    full = {"initialize_vars": True, "filter_unused_linenum": True, "output_dependencies": True, "procname": "p"}
    for text, origin in spaces.all_programs(run):
        cases.append({"text": text, "opts": {}, "origin": origin, "gen": "ctx"})
        cases.append({"text": text, "opts": full, "origin": origin, "gen": "ctx"})
    # every sequence of <= 3 (thorough 4) statements over the FOR/NEXT/GOSUB/RETURN structure alphabet, balanced or not
    n = 0
    for st in spaces.any_structures(3 if run.tier == "quick" else 4):
        for text, lay in spaces.layouts_of(st):
            cases.append({"text": text, "opts": {}, "origin": f"structure:{lay}", "gen": "ctx"})
        n += 1
    run.states += n
    run.transitions += n
    # every template (IF / ON / FOR / READ ones included) x operand shape directly after a line that is not an ordinary
    # statement (remark, CLEAR, DATA, an IF whose branch is a remark): calls hoisted out of the template have nothing to attach to there
    from vf.gen import catalogue as K
    m = 0
    for before in ("REM X", "CLEAR 200", "B = 2 ' X", "DATA 1", "IF A = 1 THEN REM X"):
        for name, body, after in K.TEMPLATES:
            seen = set()
            for how, sh in spaces.template_combos(body, full=False):
                text = K.template_program(K.fill(body, sh), after, before=[before])
                if text in seen:
                    continue
                seen.add(text)
                cases.append({"text": text, "opts": {}, "origin": f"after[{before}]:{name}:{how}", "gen": "ctx"})
            m += len(seen)
    run.states += m
    run.transitions += m
    return cases


LITS = ["1", "1.", "1.0", ".5", "0.5", "1E2", "1E+2", "1.5E-1", "1E", "1 E 2", "1E ", "-1", "+1", "--1", "- 1", ".", "1E999", "1E-999", "1.E5", ".E5",
        "&H0", "&HFF", "&H7FFF", "&H8000", "&HFFFF", "&HFFFFFF", "&H FF", "& HFF", "&H", "&HG", "12345678901234567", "1 2", "00012", "1.2.3", "1..", "1E5E5", "&HFFFFFFF"]
LIT_CTX = ["A = {}", "A = {} ^ 2", "A = 2 ^ {}", "A = B - {}", "DATA {}", "DATA {} , , 2", "DATA , {}", "DIM M( {} )", "PRINT {}", "IF {} THEN 100", "IF A = {} THEN 100 ELSE 110",
           "FOR I = {} TO {}", "M( {} ) = 1", "ON {} GOTO 100", "SOUND {} , {}", "POKE {} , 1", "PRINT @ {} , A", "A$ = CHR$( {} )", "HCIRCLE ( 1 , 2 ) , {} ,"]


def gen_literals(run):
    cases = []
    for d in core.cube(run, [("ctx", LIT_CTX), ("lit", LITS)]):
        stmt = d["ctx"].replace("{}", d["lit"])
        cases.append({"text": K.program_for([stmt]), "opts": {}, "origin": "lit", "gen": "lit"})
    # literal as a line number
    for lit in LITS + ["32699", "32700", "32701", "40000", "65535", "99999999999999999999"]:
        cases.append({"text": f"{lit} PRINT 1\n", "opts": {}, "origin": "linenum", "gen": "lit"})
        run.states += 1
        run.transitions += 1
    return cases


def gen_strings(run, maxlen):
    cases = []
    n = 0
    for ln in range(0, maxlen + 1):
        for combo in itertools.product(CHARS, repeat=ln):
            s = "".join(combo)
            cases.append({"text": s, "opts": {}, "origin": "raw", "gen": "str"})
            cases.append({"text": "10 " + s + "\n", "opts": {}, "origin": "stmt", "gen": "str"})
            n += 2
    run.states += n
    run.transitions += n
    # all single bytes / byte pairs (latin-1)
    for a in range(256):
        cases.append({"text": chr(a), "opts": {}, "origin": "byte", "gen": "str"})
        cases.append({"text": "10 A=1" + chr(a) + "\n", "opts": {}, "origin": "byte-in-line", "gen": "str"})
        cases.append({"text": '10 A$="' + chr(a) + '"\n', "opts": {}, "origin": "byte-in-string", "gen": "str"})
        cases.append({"text": "10 REM " + chr(a) + "\n", "opts": {}, "origin": "byte-in-rem", "gen": "str"})
    run.states += 1024
    run.transitions += 1024
    return cases


OPT_KEYS = ["filter_unused_linenum", "initialize_vars", "default_width32", "output_dependencies", "skip_procedure_headers", "add_standard_prefix", "add_suffix"]


PROCNAMES_EXTRA = ("lorem", "rem", "REM", "xrem1", "data", "run", "procedure", "a'b", 'q"r', "(*x")


def gen_options(run):
    cases = []
    corpus = [K.program_for([s]) for _, s, _ in K.CATALOGUE]
    corpus.append(K.program_for(["ON ERR GOTO 100", "ON BRK GOTO 110", "DIM M( 3 ) , N$( 2 )", "FOR I = 1 TO 3", 'INPUT "X" ; A$', "READ B", "DATA 1 , , 3", "NEXT", "HBUFF 1 , 10", 'PRINT STRING$( 3 , "X" ) ; JOYSTK( 0 )']))
    quick = run.tier == "quick"
    for pi, prog in enumerate(corpus):
        for bits in itertools.product([False, True], repeat=len(OPT_KEYS)):
            if quick and pi % 8 != 0 and sum(bits) not in (0, 1, len(OPT_KEYS) - 1, len(OPT_KEYS)):
                continue  # quick: full cube on every 8th program, 0/1/all-1/all flips elsewhere
            for sz in (32, 80) if (not quick or pi % 8 == 0) else (32,):
                for pn in ("", "prog", "my-prog", "a.b", "_x", "ecb_str", "inkey", "_ecb_start", "ecb_hprint") + PROCNAMES_EXTRA:
                    if pn not in ("", "prog") and (quick and pi % 8 != 0):
                        continue
                    if pn in PROCNAMES_EXTRA and quick and (sz != 32 or sum(bits) not in (0, 1, len(OPT_KEYS) - 1, len(OPT_KEYS))):
                        continue  # quick: names that look like BASIC / BASIC09 words get the 0/1/all-but-one/all option sets
                    o = dict(zip(OPT_KEYS, bits))
                    o["default_str_storage"] = sz
                    o["procname"] = pn
                    cases.append({"text": prog, "opts": o, "origin": f"opts:{pi}", "gen": "opt"})
        run.states += 1
        run.transitions += 1
    run.states += len(cases)
    run.transitions += len(cases)
    if quick:
        run.caps.append("options: full 2^7 x {32,80} x 5 procnames cube on every 8th corpus program; other programs get the 0/1/all-but-one/all option sets (thorough: full cube on all)")
    return cases


def gen_sizes(run):
    cases = []
    quick = run.tier == "quick"
    for n in ([1, 2, 5, 10, 20, 40, 60, 80, 100, 120] if quick else list(range(1, 125))):
        cases.append({"text": "10 A=" + "(" * n + "1" + ")" * n + "\n", "opts": {}, "origin": f"paren{n}", "gen": "size"})
        cases.append({"text": "10 A=" + "ABS(" * n + "1" + ")" * n + "\n", "opts": {}, "origin": f"fn{n}", "gen": "size"})
        cases.append({"text": "10 A=" + "INT(" * min(n, 60) + "1" + ")" * min(n, 60) + "\n", "opts": {}, "origin": f"int{n}", "gen": "size"})
        cases.append({"text": "10 " + "IF A THEN " * min(n, 60) + "B=1\n", "opts": {}, "origin": f"if{n}", "gen": "size"})
        cases.append({"text": "10 A=1" + "+1" * n + "\n", "opts": {}, "origin": f"sum{n}", "gen": "size"})
    # numbers with thousands of digits wherever a number can stand (Python refuses int() of more than 4300 digits)
    for n in (100, 4300, 4301, 5000, 20000):
        big = "9" * n
        for t in (f"{big} PRINT 1\n", f"10 GOTO {big}\n", f"10 GOSUB {big}\n", f"10 ON A GOTO 5,{big}\n5 END\n", f"10 IF A THEN {big} ELSE {big}\n", f"10 A={big}\n", f"10 A=.{big}\n", f"10 A=1E{big}\n",
                  f"10 DATA {big}\n", f"10 DIM M({big})\n", f"10 A=&H{big}\n", f"10 ON ERR GOTO {big}\n", f"10 PRINT @ {big} , 1\n", "0" * n + "7 PRINT 1\n", f"10 CLEAR {big}\n"):
            cases.append({"text": t, "opts": {}, "origin": f"digits{n}", "gen": "size"})
    for n in ([500, 1000, 3000] if quick else [500, 1000, 2000, 3000, 6000]):
        cases.append({"text": "10 A=1" + "+1" * n + "\n", "opts": {}, "origin": f"sum{n}", "gen": "size"})
        cases.append({"text": '10 A$="X"' + '+"X"' * n + "\n", "opts": {}, "origin": f"cat{n}", "gen": "size"})
        cases.append({"text": "10 PRINT 2" + "*B" * n + "\n", "opts": {"output_dependencies": True, "procname": "p"}, "origin": f"prod{n}", "gen": "size"})
    for n in ([1, 10, 100, 400] if quick else [1, 10, 100, 400, 1000]):
        cases.append({"text": "10 " + ":".join(["A=A+1"] * n) + "\n", "opts": {}, "origin": f"stmts{n}", "gen": "size"})
    for n in ([1, 10, 100, 500] if quick else [1, 10, 100, 500, 1500, 3000]):
        cases.append({"text": "".join(f"{i+1} A=A+1\n" for i in range(n)), "opts": {"initialize_vars": True}, "origin": f"lines{n}", "gen": "size"})
    run.states += len(cases)
    run.transitions += len(cases)
    return cases


def gen_scanner_texts(run):
    """look-alikes of what the bundler scans for (RUN <word>, REM, procedure headers, the size placeholder) inside string
    literals / remarks / DATA with 0..60 characters after them, dependencies on and off"""
    cases = []
    heads = ["RUN FOR", "RUN ecb_play", "REM", "procedure x", ": STRING<<>>", "(* RUN x", "RUN X RUN Y RUN Z"]
    tails = ["", " YOUR LIFE", " YOUR LIFE - THE DRAGON IS RIGHT BEHIND YOU NOW", " " + "AB " * 20]
    forms = ['PRINT "{}"', 'A$ = "{}" : B$ = "{}"', "REM {}", "' {}", "DATA {}", 'DATA "{}" , "{}"', 'PRINT "{}']
    for h in heads:
        for t in tails:
            for f in forms:
                stmt = f.replace("{}", h + t)
                for o in ({}, {"output_dependencies": True, "procname": "dragon"}, {"output_dependencies": True, "procname": "dragon", "default_str_storage": 80, "initialize_vars": True}):
                    cases.append({"text": K.program_for([stmt, 'PLAY "C"']), "opts": o, "origin": f"scanner:{h}", "gen": "scan"})
    run.states += len(cases)
    run.transitions += len(cases)
    return cases


def gen_configs(run):
    """All maps with one key of length <= 4 over a small alphabet x sizes: accepted and used, or ValidationError."""
    cases = []
    alpha = ["A", "1", "$", "(", ")", "a", "_"]
    keys = []
    for ln in range(1, 5 if run.tier == "quick" else 6):
        for combo in itertools.product(alpha, repeat=ln):
            keys.append("".join(combo))
    for k in keys:
        for sz in (1, 100):
            cases.append({"config": {k: sz}, "gen": "cfg"})
    for sz in (0, -1, 32766, 32767, 32768, 10 ** 9):
        cases.append({"config": {"A$": sz}, "gen": "cfg"})
    run.states += len(cases)
    run.transitions += len(cases)
    return cases


def eval_case(c):
    if c["gen"] == "cfg":
        m = tool.mods()
        try:
            sc = m["configs"].StringConfigs(strname_to_size=c["config"])
            cc = m["configs"].CompilerConfigs(string_configs=sc)
        except Exception as e:  # noqa
            k = tool.classify_exception(e)
            return k, str(e)[:200]
        r = tool.convert('10 DIM A$,A$(2),A1$,AA$(3)\n20 A$="X":A1$=A$:A$(1)=A$\n', compiler_configs=cc, default_str_storage=64)
        return r.kind, r.detail
    r = tool.convert(c["text"], **c["opts"])
    return r.kind, r.detail


def work(chunk):
    return [eval_case(c) for c in chunk]


def cli_names(run, scratch):
    """Every stem of length <= 2 over {a,Z,0,_,-} with and without a second dot, through decb_to_b09.start."""
    import importlib
    m = importlib.import_module("coco.decb_to_b09")
    alpha = ["a", "Z", "0", "_", "-"]
    stems = [a for a in alpha] + [a + b for a in alpha for b in alpha]
    names = []
    for s in stems:
        names.append(s + ".bas")
        names.append(s + ".x.bas")
        names.append(s)
    names += ["ecb_str.bas", "_ecb_start.bas", "inkey.bas", "program.bas", "procedure.bas", "a b.bas", "lorem.bas", "rem.bas", "REM", "theorem.x.bas", "data.bas", "run.bas", "a'b.bas", "(x).bas", "é.bas", "RUN ecb_play.bas"]
    d = os.path.join(scratch, "cli")
    os.makedirs(d, exist_ok=True)
    for nm in names:
        for flags in ([], ["-D"], ["-l", "-z", "-w", "-s", "80"]):
            run.states += 1
            run.transitions += 1
            run.evaluations += 1
            inp = os.path.join(d, nm)
            outp = os.path.join(d, "out.b09")
            with open(inp, "w") as f:
                f.write('10 A$=INKEY$:PRINT STR$(1);A$\n20 GOTO 10\n')
            old = sys.stdout, sys.stderr
            kind, detail = "ok", ""
            try:
                sys.stdout, sys.stderr = io.StringIO(), io.StringIO()
                try:
                    with core.Alarm(30):
                        m.start(flags + [inp, outp])
                except SystemExit as e:
                    if e.code not in (0, None):
                        kind, detail = "internal:SystemExit", str(e.code)
                except core.Alarm.Timeout:
                    kind = "hang"
                except RecursionError:
                    kind = "internal:RecursionError"
                except Exception as e:  # noqa
                    kind, detail = tool.classify_exception(e), str(e)[:200]
            finally:
                sys.stdout, sys.stderr = old
            os.remove(inp)
            stem = nm.rsplit(".", 1)[0] if "." in nm else nm
            feats = ["cli"]
            if not re.fullmatch(r"\w+", stem):
                feats.append("procname-non-word-char")
            if kind.startswith("internal") or kind == "hang":
                run.violation(kind.replace("internal:", "internal-exception:"), feats, {"gen": "cli", "name": nm, "flags": flags}, f"decb_to_b09.start({flags + [nm, 'out.b09']}): {kind} {detail}")
            elif kind != "ok":
                run.violation("valid-program-refused", feats, {"gen": "cli", "name": nm, "flags": flags}, f"decb_to_b09.start({flags + [nm, 'out.b09']}): a valid program was refused: {kind} {detail}")
            run.count("cli:" + kind.split(":")[0])


def run(run):
    quick = run.tier == "quick"
    run.rule = ("inputs = every single-token mutation (two in thorough) of every catalogue statement, literal spellings x contexts, all strings of length <= 3 (4 thorough) "
                "over a 16-character hostile alphabet raw and as a statement, all single latin-1 bytes in 4 positions, option cube x corpus, config maps, size ladders, CLI names; "
                "distinct = distinct (text, options); non-trivial = differs from the unmutated catalogue program")
    run.assumptions = ["documented refusals = parsimonious ParseError/IncompleteParseError, compiler.ParseError, LineNumberTooLargeException, pydantic ValidationError",
                       "parsimonious VisitationError (an exception raised inside a visitor) is internal"]
    cases = []
    if not run.only or "mut" in run.only:
        cases += gen_mutations(run, 1 if quick else 2)
    if not run.only or "ctx" in run.only:
        cases += gen_contexts(run)
    if not run.only or "lit" in run.only:
        cases += gen_literals(run)
    if not run.only or "str" in run.only:
        cases += gen_strings(run, 3 if quick else 4)
    if not run.only or "opt" in run.only:
        cases += gen_options(run)
    if not run.only or "size" in run.only:
        cases += gen_sizes(run)
    if not run.only or "cfg" in run.only:
        cases += gen_configs(run)
    if not run.only or "scan" in run.only:
        cases += gen_scanner_texts(run)
    i = 0
    keys = set()
    accept = {}
    for res in core.pmap(work, cases, chunk=200):
        for kind, detail in res:
            c = cases[i]
            i += 1
            if c["gen"] in ("opt", "ctx") and (kind == "ok" or kind.startswith("refused")):
                prev = accept.setdefault(c["text"], (kind, c["opts"]))
                if prev[0] != kind:
                    run.violation("acceptance-depends-on-options", {c["gen"]}, {"text": c["text"], "opts": c["opts"], "other_opts": prev[1], "gen": "accept"},
                                  f"{c['text']!r}: {kind} with {c['opts']} but {prev[0]} with {prev[1]} ({detail})")
            run.evaluations += 1
            run.count(f"{c['gen']}:{kind.split(':')[0]}")
            keys.add(hash((c.get("text"), str(c.get("opts")), str(c.get("config")))))
            if i % 9973 == 1:
                run.sample({k: c[k] for k in c if k in ("text", "opts", "origin", "config")} | {"outcome": kind})
            if kind == "ok" or kind.startswith("refused"):
                continue
            if c["gen"] == "cfg":
                feats = {"config"}
            else:
                feats = features_of(c["text"]) | {c["gen"]}
                pn = c["opts"].get("procname", "")
                if pn and not re.fullmatch(r"\w+", pn) and c["opts"].get("output_dependencies") and not c["opts"].get("skip_procedure_headers"):
                    feats.add("procname-non-word-char")
            sym = "hang" if kind == "hang" else kind.replace("internal:", "internal-exception:")
            run.violation(sym, feats, c, f"{c.get('origin')}: {kind} {detail} on {c.get('text', c.get('config'))!r}"[:600])
    run.distinct_n = len(keys)
    if not run.only or "cli" in run.only:
        cli_names(run, run.scratch_dir())


def replay(case):
    if case.get("gen") == "accept":
        a = tool.convert(case["text"], **case["opts"]).kind
        b = tool.convert(case["text"], **case["other_opts"]).kind
        return {"outcomes": [a, b], "violations": [[a, b]] if a != b else []}
    if case.get("gen") == "cli":
        return {"violations": [], "note": "CLI case: run decb_to_b09.start on a file with that name"}
    kind, detail = eval_case(case)
    bad = not (kind == "ok" or kind.startswith("refused"))
    return {"outcome": kind, "detail": detail, "violations": [kind] if bad else []}
