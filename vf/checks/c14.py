"""C14 Every emitted runtime call matches the declared interface of its procedure.

Space: every RUN-producing construct (catalogue x contexts, templates x operand shapes,
prologue, INPUT wrappers, empty-DATA filter) + every RUN statement inside ecb.b09 +
the TYPE declarations of prologue and library.
Oracle: PARAM lists parsed from the live library; arity equal, kinds (string / numeric /
record / boolean) compatible by the three-kind typer.
"""
import os
import re

from vf import core, tool
from vf.b09 import syntax as S
from vf.b09 import typer as T
from vf.gen import catalogue as K
from vf.gen import features as FE

LEVEL = "model_checking"

_lib = {}


def library():
    if not _lib:
        text = open(os.path.join(core.REPO, "coco", "resources", "ecb.b09"), encoding="latin-1").read()
        procs = S.parse(re.sub(r"(?i)STRING<<>>", "STRING", text))
        _lib["procs"] = {p.name.lower(): p for p in procs}
        _lib["scopes"] = {p.name.lower(): T.Scope(p) for p in procs}
    return _lib


def check_runs(proc, scope, where):
    """-> [(symptom, detail)] for the RUN statements of one procedure."""
    lib = library()
    out = []
    for s in S.walk(proc.body):
        if s.kind != "run":
            continue
        name = s.a["name"].lower()
        if name in ("gfx", "gfx2", "syscall", "inkey"):
            continue
        if not (name.startswith("ecb_") or name.startswith("_ecb_")):
            continue
        if name not in lib["scopes"]:
            out.append(("unknown-procedure", f"{where}: RUN {s.a['name']} - the library defines no such procedure"))
            continue
        params = lib["scopes"][name].params
        args = s.a["args"]
        if len(args) != len(params):
            out.append(("arity-mismatch", f"{where}: RUN {s.a['name']} passes {len(args)} argument(s), the procedure declares {len(params)} ({[p[0] for p in params]})"))
            continue
        for i, (a, (pn, pk, pd)) in enumerate(zip(args, params)):
            ak = scope.kind(a)
            pkind = ("arr:" + pk) if pd else pk
            if not T.compatible(ak, pkind):
                out.append(("kind-mismatch", f"{where}: RUN {s.a['name']} argument {i + 1} is {ak} but parameter {pn} is {pkind}"))
                break
    return out


def gen(run):
    from vf.gen import spaces
    cases = []
    for text, origin in spaces.all_programs(run):
        cases.append({"text": text, "opts": {"initialize_vars": True} if origin.startswith("ctx:") else {}, "origin": origin})
    # special constructs
    for text in ['10 INPUT "A";A,B$\n', '10 LINE INPUT A$\n', "10 DATA 1,,3\n20 READ A,B$,M(1)\n", "10 DIM N$(3)\n20 DATA ,X\n30 READ N$(1),A\n", "10 HBUFF 1,100\n20 HGET(1,2)-(3,4),1\n30 HPUT(1,2)-(3,4),1,PSET\n",
                 "10 ON ERR GOTO 100\n100 PRINT ERNO\n", '10 PRINT STR$(1);HEX$(2);INKEY$;STRING$(3,"X")\n']:
        for o in ({}, {"initialize_vars": True, "default_width32": False}):
            cases.append({"text": text, "opts": o, "origin": "special"})
    run.states += 14
    run.transitions += 14
    return cases


def split_top(argtext):
    args, depth, cur, q = [], 0, [], False
    for ch in argtext:
        if ch == '"':
            q = not q
        if not q:
            if ch == "(":
                depth += 1
            elif ch == ")":
                depth -= 1
            elif ch == "," and depth == 0:
                args.append("".join(cur).strip())
                cur = []
                continue
        cur.append(ch)
    args.append("".join(cur).strip())
    return args


def fallback_runs(text):
    """When the output does not parse: textual extraction of RUN calls of bundled procedures (empty / missing arguments)."""
    lib = library()
    out = []
    for line in text.split("\n"):
        for seg in line.split("\\"):
            m = re.match(r"(?i)\s*(?:\d+\s+)?run\s+(_?ecb_\w+)\s*(?:\((.*)\))?\s*$", seg)
            if not m:
                continue
            name = m.group(1).lower()
            if name not in lib["scopes"]:
                out.append(("unknown-procedure", f"program: RUN {m.group(1)}"))
                continue
            args = split_top(m.group(2)) if m.group(2) is not None else []
            params = lib["scopes"][name].params
            if any(a == "" for a in args):
                out.append(("empty-argument", f"program: RUN {m.group(1)}({m.group(2)}) has an empty argument"))
            elif len(args) != len(params):
                out.append(("arity-mismatch", f"program: RUN {m.group(1)} passes {len(args)} argument(s), the procedure declares {len(params)}"))
    return out


def judge(c):
    r = tool.convert(c["text"], **c["opts"])
    if not r.ok:
        return None
    return judge_text(r.text)


def cli_cases(run, scratch):
    """the same interface rules on what the command line writes, for every subset of its flags"""
    import importlib
    import io
    import itertools
    import sys
    m = importlib.import_module("coco.decb_to_b09")
    d = os.path.join(scratch, "cli14")
    os.makedirs(d, exist_ok=True)
    text = '10 CLS 3:PLAY "CDE":HSCREEN 2:HBUFF 1,10:HGET(0,0)-(9,9),1\n20 A$=STR$(INT(1.5)):PRINT A$;HEX$(2):SOUND 1,1\n'
    out = []
    for k in range(0, 6):
        for flags in itertools.combinations(["-l", "-z", "-w", "-D", "-s"], k):
            argv = []
            for f in flags:
                argv += [f, "80"] if f == "-s" else [f]
            run.states += 1
            run.transitions += 1
            run.evaluations += 1
            inp, outp = os.path.join(d, "prog.bas"), os.path.join(d, "prog.b09")
            with open(inp, "w") as f:
                f.write(text)
            old = sys.stdout, sys.stderr
            err = None
            try:
                sys.stdout, sys.stderr = io.StringIO(), io.StringIO()
                try:
                    m.start(argv + [inp, outp])
                except SystemExit as e:
                    err = f"SystemExit({e.code})"
                except Exception as e:  # noqa
                    err = type(e).__name__
            finally:
                sys.stdout, sys.stderr = old
            if err:
                continue
            got = open(outp, "r", newline="").read().replace("\r\n", "\n").replace("\r", "\n")
            if "-D" in flags:
                # without the bundle the text has no procedure header: give the parser one
                got = "procedure prog\n" + got
            v = judge_text(got)
            if isinstance(v, list):
                for sym, detail in v:
                    out.append((sym, f"decb_to_b09 {' '.join(argv)}: {detail}", list(argv)))
    return out


def judge_text(text):
    try:
        procs = S.parse(text)
    except S.B09SyntaxError:
        return fallback_runs(text) or "unparsable"
    out = []
    for p in procs:
        sc = T.Scope(p)
        out += check_runs(p, sc, "program")
    # prologue TYPEs vs library TYPEs
    lib = library()
    for p in procs:
        sc = T.Scope(p)
        for tname, fields in sc.types.items():
            for lname, lsc in lib["scopes"].items():
                if tname in lsc.types and lsc.types[tname] != fields:
                    a, b = fields, lsc.types[tname]
                    k = next((i for i in range(min(len(a), len(b))) if a[i] != b[i]), min(len(a), len(b)))
                    out.append(("type-declaration-differs", f"type {tname}: program declares field #{k} {a[k:k+1]} but procedure {lname} declares {b[k:k+1]}"))
                    break
    return out


def work(chunk):
    return [judge(c) for c in chunk]


def run(run):
    run.rule = ("programs = catalogue x contexts, templates x operand shapes (one slot deviating / all slots), special constructs; plus every RUN inside the library; "
                "distinct = distinct program texts; non-trivial = output contains >= 1 RUN of a bundled procedure")
    run.assumptions = ["parameter lists = PARAM statements of the live ecb.b09 parsed by vf/b09/syntax.py", "kinds: string / numeric (BYTE, INTEGER, REAL) / boolean / record type name"]
    lib = library()
    # library internal calls and type declarations
    n_int = 0
    ref_types = {}
    for name, p in sorted(lib["procs"].items()):
        sc = lib["scopes"][name]
        for sym, detail in check_runs(p, sc, f"library procedure {name}"):
            run.violation(sym, {"library-internal", "proc:" + name}, {"procedure": name}, detail)
        n_int += sum(1 for s in S.walk(p.body) if s.kind == "run")
        for tname, fields in sc.types.items():
            if tname in ref_types and ref_types[tname][1] != fields:
                run.violation("type-declaration-differs", {"library-internal"}, {"type": tname, "procedures": [ref_types[tname][0], name]},
                              f"type {tname} is declared differently in {ref_types[tname][0]} and {name}")
            ref_types.setdefault(tname, (name, fields))
    run.count("library_run_statements", n_int)
    run.states += n_int
    run.transitions += n_int
    # the interfaces as they are *emitted* (the bundler rewrites string declarations): for every requested string size the bundled
    # copy of each procedure must declare the same parameters (names, order, kinds, dimensions) as the library text
    big = "10 HSCREEN 2:HPRINT(1,2),\"X\":HDRAW \"U1\":PLAY \"C\":A$=STRING$(2,\"X\")+HEX$(1)+STR$(2):A=INSTR(1,A$,\"X\")+VAL(A$)+INT(1.5)\n20 HLINE(1,2)-(3,4),PSET,B:HBUFF 1,10:HGET(0,0)-(1,1),1:HPUT(0,0)-(1,1),1,PSET:INPUT B$:READ C:LOCATE 1,1:ATTR 1,2\n30 DATA 1,,3\n"
    for size in (32, 33, 80, 128, 255):
        r = tool.convert(big, output_dependencies=True, procname="p", default_str_storage=size)
        run.states += 1
        run.transitions += 1
        run.evaluations += 1
        if not r.ok:
            continue
        try:
            bprocs = S.parse(r.text)
        except S.B09SyntaxError as e:
            run.violation("bundled-interface-malformed", {"bundle", "storage:%d" % size}, {"bundle": size}, f"default_str_storage={size}: the bundle does not parse: {e}")
            continue
        for bp in bprocs:
            lp = lib["procs"].get(bp.name.lower())
            if lp is None:
                continue

            def sig(p):
                out = []
                for st in S.walk(p.body):
                    if st.kind == "param":
                        for grp, typ in st.a["groups"]:
                            for nm, dims in grp:
                                out.append((nm.lower(), (typ[0] if typ else None), tuple(dims)))
                return out
            if sig(bp) != sig(lp):
                run.violation("bundled-interface-differs", {"bundle", "storage:%d" % size, "proc:" + bp.name.lower()}, {"bundle": size},
                              f"default_str_storage={size}: bundled {bp.name} declares parameters {sig(bp)}, the library {sig(lp)}")
    cases = gen(run)
    i = 0
    keys = set()
    for res in core.pmap(work, cases, chunk=100):
        for verdicts in res:
            c = cases[i]
            i += 1
            run.evaluations += 1
            if verdicts is None:
                run.count("refused")
                continue
            if verdicts == "unparsable":
                run.count("unparsable-output (C07's business)")
                continue
            keys.add(hash(c["text"]))
            if i % 2500 == 1:
                run.sample({"text": c["text"], "opts": c["opts"], "verdicts": verdicts})
            for sym, detail in verdicts:
                f = FE.source_features(c["text"])
                m = re.search(r"RUN (\w+)", detail)
                if m:
                    f.add("callee:" + m.group(1).lower())
                run.violation(sym, f, {"text": c["text"], "opts": c["opts"], "origin": c["origin"]}, f"{c['origin']}: {detail}\nsource: {c['text']!r}")
    seen_cli = set()
    for sym, detail, argv in cli_cases(run, run.scratch_dir()):
        if (sym, tuple(argv)) in seen_cli:
            continue
        seen_cli.add((sym, tuple(argv)))
        f = {"cli"} | ({"uses-joystk"} if "ecb_joystk" in detail else set())
        run.violation(sym, f, {"cli": argv}, detail)
    run.distinct_n = len(keys)


def replay(case):
    if "text" not in case:
        return {"violations": [], "note": "library-internal finding; rerun the check"}
    v = judge(case)
    return {"violations": v if isinstance(v, list) else []}
