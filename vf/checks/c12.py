"""C12 Conversion is a deterministic function of its input and options.

(1) Set order, owned: the `set` name of coco.b09.{visitors,elements,procbank,compiler,prog}
    is rebound to ChoiceSet, whose iteration order is a choice of the explorer; for every
    program all permutations of every iterated set are enumerated and all leaves must
    produce the same bytes.  This covers every hash seed and insertion history at once.
(2) Process state: every call history up to a depth over an alphabet of (program, options)
    pairs and decoder runs is executed in a fresh forked process; after every history each
    alphabet element must return the bytes it returns in a fresh process.  A fingerprint of
    all module-level state of coco.* is taken after each history (distinct count reported).
(3) Conformance of the seam: the alphabet in fresh interpreters under PYTHONHASHSEED 0..15.
"""
import hashlib
import itertools
import json
import multiprocessing as mp
import os
import subprocess
import sys
import types

from vf import core, tool
from vf.core import Explorer

LEVEL = "model_checking"


# ------------------------------------------------------------------ ChoiceSet
class ChoiceSet(set):
    chooser = None
    iterations = 0

    def __iter__(self):
        items = sorted(set.__iter__(self), key=repr)
        n = len(items)
        ch = ChoiceSet.chooser
        if ch is not None and n > 1:
            ChoiceSet.iterations += 1
            if n <= 4:
                perms = list(itertools.permutations(items))
                items = list(perms[ch.pick(len(perms), f"set-order/{n}")])
            else:
                # rotations + reversal for larger sets (stated cap)
                k = ch.pick(2 * n, f"set-rotation/{n}")
                items = items[k % n :] + items[: k % n]
                if k >= n:
                    items.reverse()
        return iter(items)

    def _wrap(self, r):
        return ChoiceSet(r) if isinstance(r, (set, frozenset)) and not isinstance(r, ChoiceSet) else r

    def copy(self):
        return ChoiceSet(set.copy(self))

    def __sub__(self, o):
        return ChoiceSet(set.__sub__(self, o))

    def __or__(self, o):
        return ChoiceSet(set.__or__(self, o))

    def __and__(self, o):
        return ChoiceSet(set.__and__(self, o))

    def __xor__(self, o):
        return ChoiceSet(set.__xor__(self, o))

    def union(self, *o):
        return ChoiceSet(set.union(self, *o))

    def difference(self, *o):
        return ChoiceSet(set.difference(self, *o))

    def intersection(self, *o):
        return ChoiceSet(set.intersection(self, *o))


SEAM_MODULES = ["coco.b09.visitors", "coco.b09.elements", "coco.b09.procbank", "coco.b09.compiler", "coco.b09.prog", "coco.b09.parser", "coco.b09.error_handler"]


def install_seam():
    import importlib
    for name in SEAM_MODULES:
        m = importlib.import_module(name)
        m.set = ChoiceSet
        m.frozenset = ChoiceSet


def remove_seam():
    for name in SEAM_MODULES:
        m = sys.modules.get(name)
        if m is not None:
            for a in ("set", "frozenset"):
                if a in m.__dict__:
                    del m.__dict__[a]


# ------------------------------------------------------------------ alphabet
PROGRAMS = {
    "implicit-arrays": '10 A(1)=B(2)+E(1)+F(2)\n20 C$(3)=DD$(1)+G$(2)\n30 PRINT Q(1,2);Z(3)\n',
    "string-sizes": '10 DIM S$,T$(3),U$(2,2),V\n20 S$="A":T$(1)=S$+W$:X$=Y$+Z$\n30 PRINT S$;X$;K$\n',
    "runtime-deps": '10 SOUND 100,1\n20 A$=HEX$(255)\n30 B=INSTR(1,A$,"F")\n40 PLAY "CDE":HSCREEN 2:HLINE(1,2)-(3,4),PSET\n',
    "empty-data": '10 DATA 1,,3\n20 DATA "A",&HFF,\n30 READ A,B,C,A$,D,E\n40 PRINT A;B;C\n',
    "raises-midway": '10 DIM M(3)\n20 FOR I=1 TO 3:M(I)=INT(I/2):NEXT\n30 IF A=1 THEN 999\n',
    "handlers": '10 ON ERR GOTO 100\n20 ON BRK GOTO 110\n30 A=1/B\n100 PRINT ERNO\n110 END\n',
    "circle-default": '10 HCIRCLE(X,Y),R,,INT(H)/10\n20 HCIRCLE(159,95),20\n30 HCIRCLE(1,2),3,,0.5,0.1,0.2\n',
    "plain": '10 A=1\n20 B=A+2\n',
    "numeric-data": '10 READ A,B,C\n20 DATA 1,3,255\n30 PRINT A+B+C\n',
    "many-vars": '10 A=1:B=2:C=3:D=4:E=5:F$="X":G$="Y":H$="Z"\n20 PRINT A;B;C;D;E;F$;G$;H$\n30 IF JOYSTK(0)>BUTTON(1) THEN PRINT INKEY$\n',
    "same-base-arrays": '10 N$(1)="X":N(1)=2:Q$(2)="Y":Q(2)=3\n20 PRINT N$(1);N(1);Q$(2);Q(2):V$="A":V=1:V(1)=2:V$(1)="B"\n',
    "ifs": '10 IF A=1 THEN 100 ELSE IF A=2 THEN 200 ELSE 300\n20 ON A GOSUB 100,200,300\n100 RETURN\n200 RETURN\n300 RETURN\n',
}
# process-global interpreter state: a long listing followed by a deeply nested expression (refused as nested too deeply
# in a fresh process) and by one just below the limit
PROGRAMS["long-listing"] = "".join(f'{10 * (i + 1)} PRINT "LINE {i}";A{i % 9}\n' for i in range(300))
PROGRAMS["deep-nesting-70"] = "10 A=" + "(" * 70 + "1" + ")" * 70 + "\n"
PROGRAMS["deep-nesting-40"] = "10 A=" + "(" * 40 + "1" + ")" * 40 + "\n"
PROGRAMS["deep-nesting-120"] = "10 A=" + "(" * 120 + "1" + ")" * 120 + "\n"
OPTSETS = {
    "default": {},
    "full": {"initialize_vars": True, "filter_unused_linenum": True, "output_dependencies": True, "procname": "demo"},
    "str80": {"default_str_storage": 80, "output_dependencies": True, "procname": "demo", "initialize_vars": True},
}


def alphabet():
    a = []
    for pn in sorted(PROGRAMS):
        for on in sorted(OPTSETS):
            if pn.startswith(("long-", "deep-")) and on != "default":
                continue
            a.append(("conv", pn, on))
    # two inputs per decoder that differ in palette and pixel data (a decoder that remembers anything of the
    # first picture shows it on the second)
    for t in ("hrs", "max", "pix", "mge", "vef", "rat", "cm3"):
        a.append(("dec", t, ""))
        a.append(("dec", t, "b"))
    return a


def _dec_sample(t, variant=""):
    from vf.img import cases as C, formats as F
    pal = C.palette(5)
    if variant == "b":
        pal = list(reversed(C.palette(41, step=7)))
        if t == "hrs":
            return ["-w", "8", "-r", "4"], F.hrs_file(pal, C.body_lin(16, 3, 1))
        if t == "max":
            return ["-w", "16", "-rb3"], F.max_file(bytes(reversed(C.body_lin(8, 5, 1))))
        if t == "pix":
            return [], bytes(reversed(C.body_lin(32, 7, 1)))
        if t == "mge":
            return [], F.mge_raw_file(pal, bytes((i // 41) & 255 for i in range(32000)), rgb_flag=1)
        if t == "vef":
            return [], F.vef_raw_file(pal, C.body_lin(32000, 3, 1), 0)
        if t == "rat":
            return [], F.rat_file(pal, bytes((i // 7) & 0x77 for i in range(199 * 160)), core.Chooser(()))
        if t == "cm3":
            body = bytes(160) + bytes(((i // 160) * 3 + 1) & 0x7F for i in range(191 * 160))
            return [], F.cm3_coded_file(pal, body, core.Chooser(()), False, False)
    if t == "rat":
        return [], F.rat_file(pal, bytes((i // 3) & 0x77 for i in range(199 * 160)), core.Chooser(()))
    if t == "cm3":
        return [], F.cm3_coded_file(pal, bytes(((i // 160) * 5 + 0x5A) & 0x7F for i in range(192 * 160)), core.Chooser(()), False, True)
    if t == "hrs":
        return ["-w", "8", "-r", "4"], F.hrs_file(pal, C.body_lin(16, 3, 1))
    if t == "max":
        return ["-w", "16", "-br"], F.max_file(C.body_lin(8, 5, 1))
    if t == "pix":
        return [], C.body_lin(32, 7, 1)
    if t == "mge":
        return [], F.mge_rle_file(pal, bytes((i // 41) & 255 for i in range(32000)), core.Chooser(()))
    if t == "vef":
        return [], F.vef_raw_file(pal, C.body_lin(16000, 3, 1), 3)


def perform(op, scratch):
    kind, a, b = op
    if kind == "conv":
        r = tool.convert(PROGRAMS[a], **OPTSETS[b])
        return (r.kind + "|" + (r.text or "") + "|" + (r.detail if r.kind.startswith("refused") else "")).encode("latin-1", "replace")
    from vf.img import tools as T
    opts, data = _dec_sample(a, b)
    oc = T.run_tool(a, data, opts, scratch)
    return oc.status.encode() + b"|" + (oc.out or b"")


def fingerprint():
    """Canonical digest of module-level mutable state of coco.* (informational)."""
    h = hashlib.sha256()

    def dump(o, depth=0):
        if depth > 4:
            return "..."
        if isinstance(o, (str, int, float, bool, bytes, type(None))):
            return repr(o)
        if isinstance(o, (list, tuple)):
            return "[" + ",".join(dump(x, depth + 1) for x in o) + "]"
        if isinstance(o, (set, frozenset)):
            return "{" + ",".join(sorted(dump(x, depth + 1) for x in o)) + "}"
        if isinstance(o, dict):
            return "{" + ",".join(sorted(dump(k, depth + 1) + ":" + dump(v, depth + 1) for k, v in o.items())) + "}"
        if hasattr(o, "cache_info"):
            try:
                return "cache" + repr(tuple(o.cache_info()))
            except Exception:
                return "cache?"
        if isinstance(o, (types.FunctionType, types.MethodType)):
            return "fn:" + getattr(o, "__qualname__", "?") + dump(getattr(o, "__defaults__", None), depth + 1) + dump(getattr(o, "__kwdefaults__", None), depth + 1)
        if isinstance(o, type):
            return "cls:" + o.__qualname__ + dump({k: v for k, v in vars(o).items() if not k.startswith("__") and not callable(v) and not isinstance(v, (property, staticmethod, classmethod))}, depth + 1)
        if isinstance(o, types.ModuleType):
            return "mod:" + o.__name__
        d = getattr(o, "__dict__", None)
        if d is not None and depth < 3:
            return type(o).__name__ + dump(d, depth + 1)
        return type(o).__name__
    for name in sorted(sys.modules):
        if name == "coco" or name.startswith("coco."):
            m = sys.modules[name]
            for k in sorted(vars(m)):
                if k.startswith("__"):
                    continue
                v = vars(m)[k]
                if name.endswith(".grammar") and k == "grammar":
                    h.update(("grammar:%d" % len(v)).encode())
                    continue
                h.update((name + "." + k + "=" + dump(v)).encode("utf-8", "replace"))
    return h.hexdigest()[:16]


def history_worker(args):
    """Runs in a fresh forked process (maxtasksperchild=1)."""
    hist, ref = args
    scratch = history_worker.scratch
    alpha = alphabet()
    first = [hashlib.sha256(perform(alpha[i], scratch)).hexdigest() for i in hist]
    fp = fingerprint()
    bad = []
    for j, op in enumerate(alpha):
        out = hashlib.sha256(perform(op, scratch)).hexdigest()
        if ref is not None and out != ref[j]:
            bad.append(j)
    outs = None
    if ref is None:
        outs = [hashlib.sha256(perform(op, scratch)).hexdigest() for op in alpha]
    return hist, first, fp, bad, outs


def run_histories(run, depth):
    alpha = alphabet()
    history_worker.scratch = run.scratch_dir()
    ctx = mp.get_context("fork")
    # reference = outputs in a fresh process with empty history (computed twice -> replay determinism)
    with ctx.Pool(2, maxtasksperchild=1) as pool:
        r1, r2 = pool.map(history_worker, [((), None), ((), None)], chunksize=1)
    ref = r1[4]
    if r1[4] != r2[4]:
        run.violation("fresh-process-nondeterminism", ["histories"], {"gen": "hist", "history": []}, "two fresh processes disagree on the alphabet outputs")
    hists = []
    for d in range(1, depth + 1):
        hists += list(itertools.product(range(len(alpha)), repeat=d))
    run.states += 1 + len(hists)
    run.transitions += len(hists) * (1 + len(alpha))
    fps = set()
    procs = min(16, os.cpu_count() or 1)
    with ctx.Pool(procs, maxtasksperchild=1) as pool:
        for hist, first, fp, bad, _ in pool.imap(history_worker, [(h, ref) for h in hists], chunksize=1):
            fps.add(fp)
            run.evaluations += len(hist) + len(alpha)
            # outputs produced *during* the history must also equal the reference
            for pos, i in enumerate(hist):
                if first[pos] != ref[i]:
                    bad = sorted(set(bad) | {i})
            if bad:
                run.violation("output-depends-on-history", ["histories"], {"gen": "hist", "history": [list(alpha[i]) for i in hist], "affected": [list(alpha[j]) for j in bad]},
                              f"after history {[alpha[i] for i in hist]} the outputs of {[alpha[j] for j in bad][:4]} differ from a fresh process")
    run.count("histories", len(hists))
    run.count("distinct_state_fingerprints", len(fps))
    run.sample({"history": [list(alpha[i]) for i in hists[len(hists) // 2]], "then": "every alphabet element re-run and compared with a fresh process"})


def run_setorder(run, max_dev):
    install_seam()
    try:
        progs = {k: v for k, v in PROGRAMS.items() if not k.startswith(("long-", "deep-"))}
        # extra programs with 2..4 element sets of each kind
        progs["impl2"] = "10 A(1)=B(1)\n"
        progs["impl3"] = "10 A(1)=B(1)+C$(1)\n" if False else "10 A(1)=B(1)+C(1)\n"
        progs["impl4"] = "10 A(1)=B(1)+C(1)+D(1)\n"
        progs["strs4"] = '10 A$="1":B$="2":C$="3":D$="4"\n'
        progs["dupdim"] = "10 DIM A(5),B$(3),C(2,2),A(5)\n"
        progs["undef3"] = "10 GOTO 100\n20 GOSUB 200\n30 ON A GOTO 300,400\n"
        for pn in sorted(progs):
            for on in sorted(OPTSETS):
                outs = {}

                def build(ch, pn=pn, on=on):
                    ChoiceSet.chooser = ch
                    try:
                        r = tool.convert(progs[pn], timeout=0, **OPTSETS[on])
                    finally:
                        ChoiceSet.chooser = None
                    return r.kind + "|" + (r.text or "")
                ex = Explorer(build, max_dev=max_dev)
                n = 0
                for out, choices in ex:
                    n += 1
                    run.evaluations += 1
                    outs.setdefault(out, choices)
                    if n >= 20000:
                        run.caps.append(f"set-order exploration of {pn}/{on} capped at 20000 leaves")
                        break
                run.add_explorer(ex)
                run.count("setorder_leaves", n)
                run.distinct.add(hash((pn, on)))
                if len(outs) > 1:
                    (o1, c1), (o2, c2) = list(outs.items())[:2]
                    l1, l2 = o1.split("\n"), o2.split("\n")
                    k = next((i for i in range(min(len(l1), len(l2))) if l1[i] != l2[i]), 0)
                    run.violation("output-depends-on-set-order", ["setorder"], {"gen": "setorder", "program": progs[pn], "opts": OPTSETS[on], "choices_a": list(c1), "choices_b": list(c2)},
                                  f"{pn}/{on}: {len(outs)} different outputs over {n} set iteration orders; first differing line: {l1[k:k+1]} vs {l2[k:k+1]}")
                if pn == "implicit-arrays" and on == "default":
                    run.sample({"program": progs[pn], "opts": on, "set_iteration_orders_explored": n, "distinct_outputs": len(outs)})
        run.count("choiceset_iterations_seen", ChoiceSet.iterations)
    finally:
        remove_seam()


SEED_SCRIPT = r'''
import sys, hashlib, json
sys.path.insert(0, %(verif)r); sys.path.insert(0, %(repo)r)
from vf import core; core.bind_repo()
from vf.checks import c12
import tempfile, shutil
d = tempfile.mkdtemp(prefix="verif_c12_")
try:
    print(json.dumps([hashlib.sha256(c12.perform(op, d)).hexdigest() for op in c12.alphabet()]))
finally:
    shutil.rmtree(d, ignore_errors=True)
'''


def run_seeds(run, seeds):
    script = SEED_SCRIPT % {"verif": core.VERIF, "repo": core.REPO}
    procs = []
    for s in seeds:
        env = dict(os.environ, PYTHONHASHSEED=str(s), VERIF_REPO=core.REPO)
        procs.append((s, subprocess.Popen([sys.executable, "-c", script], stdout=subprocess.PIPE, stderr=subprocess.PIPE, env=env)))
    outs = {}
    alpha = alphabet()
    for s, p in procs:
        o, e = p.communicate(timeout=600)
        if p.returncode:
            raise RuntimeError(f"seed subprocess failed: {e.decode()[-500:]}")
        outs[s] = json.loads(o.decode().strip().splitlines()[-1])
        run.evaluations += len(alpha)
    run.states += len(seeds)
    run.transitions += len(seeds)
    base = outs[seeds[0]]
    for s in seeds[1:]:
        diff = [alpha[j] for j in range(len(alpha)) if outs[s][j] != base[j]]
        if diff:
            run.violation("output-depends-on-hash-seed", ["seeds"], {"gen": "seeds", "seed_a": seeds[0], "seed_b": s, "affected": [list(d) for d in diff]},
                          f"PYTHONHASHSEED={s} vs {seeds[0]}: outputs differ for {diff[:4]}")
    run.count("hash_seeds", len(seeds))


def run(run):
    quick = run.tier == "quick"
    run.rule = ("(1) all iteration orders of every set the translator iterates (owned `set` binding) per program x option set; (2) all call histories of length <= depth over the "
                "alphabet, each in a fresh process, followed by a re-run of the whole alphabet; (3) 16(+) hash seeds in fresh interpreters; distinct = distinct (program, options)")
    run.assumptions = ["set literals / comprehensions written with braces are not owned by the seam; they are only covered by the finite seed sweep (none exist in the tree today)",
                       "the state fingerprint is informational; histories are enumerated completely up to the depth instead of being deduplicated by it"]
    if not run.only or "hist" in run.only:
        run_histories(run, 1 if quick else 2)
        if quick:
            run.caps.append("histories: depth 1 (every ordered pair 'X then whole alphabet'); thorough: depth 2")
    if not run.only or "set" in run.only:
        run_setorder(run, 1 if quick else 2)
        run.caps.append('set order: at most %d set iterations per conversion deviate from sorted order (every permutation of the deviating set is tried)' % (1 if quick else 2))
    if not run.only or "seeds" in run.only:
        seeds = list(range(16)) if quick else list(range(16)) + [100 + 37 * run.seed + i for i in range(32)]
        run_seeds(run, seeds)
    run.distinct_n = len(PROGRAMS) * len(OPTSETS) + 5


def replay(case):
    return {"violations": [], "note": "re-run the deterministic check (cases: %s)" % case.get("gen")}
