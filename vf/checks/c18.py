"""C18 Decoder output is a complete image file of the advertised size.

Option cubes of HRS and MAX (all widths/heights/skips/modes in the bound), all square PIX
sizes, well-formed files of the fixed-size formats, and the file/pipe matrix.  Oracle:
independent PNM/PNG reader; header dims = what the options/format dictate; payload =
w*h*channels exactly; -s N on F == no skip on F[N:]; pipes == files.
"""
import os
import subprocess
import sys

from vf import core
from vf.core import Chooser
from vf.img import cases as C
from vf.img import formats as F
from vf.img import tools as T

LEVEL = "model_checking"


def gen(run):
    quick = run.tier == "quick"
    cases = []
    # HRS cube
    W = range(1, 41) if quick else list(range(1, 81)) + [160, 320, 321]
    R = range(1, 7) if quick else list(range(1, 9)) + [192]
    S = [None] + list(range(0, 21)) if quick else [None] + list(range(0, 41))
    for d in core.cube(run, [("w", W), ("r", R), ("s", S)]):
        w, r, s = d["w"], d["r"], d["s"]
        pal = C.palette((w + r) % 64)
        body = C.body_lin((w // 2) * r, 5, w)
        skipb = bytes((i * 3 + 1) & 255 for i in range(s or 0))
        opts = ["-w", str(w), "-r", str(r)] + ([] if s is None else ["-s", str(s)])
        feats = ["hrs"] + (["hrs-width-odd"] if w % 2 else [])
        cases.append({"tool": "hrs", "opts": opts, "data": skipb + bytes(pal) + body, "dims": (w, r, 3), "expect": "ok",
                      "features": feats, "skip": s, "label": f"hrs w={w} r={r} s={s}"})
    # MAX cube 1: geometry x mode x newsroom
    Wm = list(range(1, 41)) + [256] if quick else list(range(1, 73)) + [256, 512]
    Rm = [None] + list(range(1, 7))
    for d in core.cube(run, [("w", Wm), ("r", Rm), ("mode", F.MAX_MODES), ("news", [False, True])]):
        w, r, mode, news = d["w"], d["r"], d["mode"], d["news"]
        if news:
            if w > 40 or w % 8:  # newsroom ignores -w; use w//8 as the header's column count
                continue
            colsb = w // 8
            rows = r or 3
            body = C.body_lin(colsb * rows, 3, w)
            data = F.newsroom_file(colsb, rows, body)
            dims = (colsb * 8, rows, 3)
            opts = F.MAX_FLAGS[mode] + ["-newsroom"] + (["-w", str(99)] if r else [])
            feats = ["max", "newsroom"]
        else:
            rows = r or 4
            rowb = w >> 3
            # size field consistent with (w, rows): 8*size//w == rows and w*rows//8 == size
            size = w * rows // 8
            if r is None and (8 * size // w != rows or w * rows // 8 != size):
                continue
            body = C.body_lin(max(size, rowb * rows), 7, w)
            data = F.max_file(body, size_field=size)
            dims = (w, rows, 3)
            opts = F.MAX_FLAGS[mode] + ["-w", str(w)] + (["-r", str(r)] if r else [])
            feats = ["max"] + (["max-width-not-multiple-of-8"] if w % 8 else [])
        cases.append({"tool": "max", "opts": opts, "data": data, "dims": dims, "expect": "ok", "features": feats, "skip": None,
                      "label": f"max w={w} r={r} {mode} news={news}"})
    # MAX cube 2: header consistency x -i x skip x first byte
    for d in core.cube(run, [("w", [8, 16, 24, 256]), ("r", [None, 2]), ("s", [None, 0, 1, 5]), ("ign", [False, True]),
                             ("first", [0, 1, 255]), ("sizeerr", [0, 1, -1, 7])]):
        w, r, s, ign, first, se = d["w"], d["r"], d["s"], d["ign"], d["first"], d["sizeerr"]
        rows_true = 3
        size = w * rows_true // 8 + se
        if size < 0:
            continue
        body = C.body_lin((w >> 3) * max(8, r or (8 * size // w)), 11, 5)
        data = bytes(range(1, (s or 0) + 1)) + F.max_file(body, size_field=size, first=first)
        opts = ["-w", str(w)] + (["-r", str(r)] if r else []) + ([] if s is None else ["-s", str(s)]) + (["-i"] if ign else [])
        bad_first = first != 0
        rows = r or (8 * size // w)
        inconsistent = (r is None) and (w * rows // 8 != size)
        expect = "ok" if (ign or not (bad_first or inconsistent)) else "fail-removed"
        cases.append({"tool": "max", "opts": opts, "data": data, "dims": (w, rows, 3), "expect": expect, "features": ["max", "max-header"],
                      "skip": s, "label": f"max hdr w={w} r={r} s={s} i={ign} first={first} size={size}"})
    # MAX cube 2b: the 16-bit length field over its whole range (height derived from it): boundary values of both bytes
    for d in core.cube(run, [("size", [0x0100, 0x00FF, 0x1800, 0x7F00, 0x7FE0, 0x8000, 0x8020, 0xC000, 0xFF00, 0xFFE0]), ("w", [256, 8])]):
        size, w = d["size"], d["w"]
        if (8 * size) % w or (w == 8 and size > 0x0100):
            continue
        rows = 8 * size // w
        data = F.max_file(C.body_lin(size, 13, 7), size_field=size)
        cases.append({"tool": "max", "opts": ["-w", str(w)], "data": data, "dims": (w, rows, 3), "expect": "ok", "features": ["max", "max-length-field"], "skip": None,
                      "label": f"max length field {size:#06x} w={w}"})
    # MAX cube 3: newsroom header x skip x geometry (the -w/-r options must be ignored, -s honoured)
    for d in core.cube(run, [("colsb", [1, 2, 3, 5]), ("rows", [1, 2, 5]), ("s", [None, 0, 1, 2, 4, 7]), ("w", [None, 16]), ("r", [None, 3]), ("mode", ["bw", "rb2"])]):
        body = C.body_lin(d["colsb"] * d["rows"], 3, 1)
        s_ = d["s"]
        junk = bytes(((i * 5 + 2) & 255) for i in range(s_ or 0))
        data = junk + F.newsroom_file(d["colsb"], d["rows"], body)
        opts = F.MAX_FLAGS[d["mode"]] + ["-newsroom"] + ([] if s_ is None else ["-s", str(s_)]) + (["-w", str(d["w"])] if d["w"] else []) + (["-r", str(d["r"])] if d["r"] else [])
        cases.append({"tool": "max", "opts": opts, "data": data, "dims": (d["colsb"] * 8, d["rows"], 3), "expect": "ok", "features": ["max", "newsroom"], "skip": s_,
                      "label": f"max newsroom cols={d['colsb']} rows={d['rows']} s={s_} w={d['w']} r={d['r']}"})
    # PIX: every square size in the bound
    for d in core.cube(run, [("side", range(2, 36 if quick else 66, 2))]):
        side = d["side"]
        data = C.body_lin(side * side // 2, 9, side)
        cases.append({"tool": "pix", "opts": [], "data": data, "dims": (side, side, 1), "expect": "ok", "features": ["pix"], "skip": None, "label": f"pix side={side}"})
    # fixed-size formats: well-formed files
    pal = C.palette(17)
    ch0 = Chooser(())
    b32 = C.body_lin(32000, 3, 5)
    brun = bytes((i // 37) & 255 for i in range(32000))
    for name, data, dims in [
        ("mge raw", F.mge_raw_file(pal, b32), (320, 200, 3)),
        ("mge raw cmp", F.mge_raw_file(pal, b32, rgb_flag=1), (320, 200, 3)),
        ("mge rle", F.mge_rle_file(pal, brun, Chooser(())), (320, 200, 3)),
        ("mge rle noisy", F.mge_rle_file(pal, b32, Chooser(())), (320, 200, 3)),
        ("mge title full", F.mge_raw_file(pal, b32, title=b"A" * 29), (320, 200, 3)),
    ]:
        cases.append({"tool": "mge", "opts": [], "data": data, "dims": dims, "expect": "ok", "features": ["mge"], "skip": None, "label": name})
    b31 = bytes((i // 29) & 255 for i in range(199 * 160))
    cases.append({"tool": "rat", "opts": [], "data": F.rat_file(pal, b31, Chooser(())), "dims": (320, 199, 3), "expect": "ok", "features": ["rat"], "skip": None, "label": "rat"})
    for two in (False, True):
        for pat in (False, True):
            rows = 384 if two else 192
            body = C.body_lin(rows * 160, 1, 3)
            cases.append({"tool": "cm3", "opts": [], "data": F.cm3_raw_file(pal, body, two, pat), "dims": (320, rows, 3), "expect": "ok", "features": ["cm3"], "skip": None, "label": f"cm3 raw two={two} pat={pat}"})
            body2 = bytes(((i // 160) * 7 + (i % 160) // 9) & 255 for i in range(rows * 160))
            cases.append({"tool": "cm3", "opts": [], "data": F.cm3_coded_file(pal, body2, Chooser(()), two, pat), "dims": (320, rows, 3), "expect": "ok", "features": ["cm3"], "skip": None, "label": f"cm3 coded two={two} pat={pat}"})
    for vt in (0, 1, 3):
        t = F.VEF_TYPES[vt]
        body = C.body_lin(t["rec"] * 400, 5, 1)
        bodyr = bytes((i // 13) & 255 for i in range(t["rec"] * 400))
        h = 400 if t["width"] == 640 else 200
        cases.append({"tool": "vef", "opts": [], "data": F.vef_raw_file(pal, body, vt), "dims": (t["width"], h, "png"), "expect": "ok", "features": ["vef"], "skip": None, "label": f"vef raw {vt}"})
        cases.append({"tool": "vef", "opts": [], "data": F.vef_squashed_file(pal, bodyr, vt, Chooser(())), "dims": (t["width"], h, "png"), "expect": "ok", "features": ["vef"], "skip": None, "label": f"vef squashed {vt}"})
    run.states += 20
    run.transitions += 20
    return cases


def judge_one(case, scratch):
    out = []
    oc = T.run_tool(case["tool"], case["data"], case["opts"], scratch)
    if case["expect"] == "fail-removed":
        if oc.status == "ok" and oc.out is not None:
            out.append(("header-error-not-reported", f"{case['label']}: header error must be reported and the output removed, but a file of {len(oc.out)} bytes was left and status ok"))
        return out, oc
    if oc.status != "ok":
        out.append(("well-formed-input-rejected:" + oc.status, f"{case['label']}: {oc.status} {oc.detail}"))
        return out, oc
    w, h, ch = case["dims"]
    if ch == "png":
        try:
            img = F.parse_png(oc.out)
            if (img["width"], img["height"]) != (w, h):
                out.append(("header-dims-wrong", f"{case['label']}: png {img['width']}x{img['height']} expected {w}x{h}"))
        except F.BadImage as e:
            out.append(("unparsable-output", f"{case['label']}: {e}"))
    else:
        sym, detail = C.classify_pnm(oc.out, w, h, ch)
        if sym:
            out.append((sym, f"{case['label']}: {detail}"))
    # skip equivalence
    if case["skip"]:
        s = case["skip"]
        opts2 = []
        it = iter(case["opts"])
        for o in it:
            if o == "-s":
                next(it)
                continue
            opts2.append(o)
        oc2 = T.run_tool(case["tool"], case["data"][s:], opts2, scratch)
        if oc2.key() != oc.key():
            out.append(("skip-not-equivalent", f"{case['label']}: -s {s} on F differs from no skip on F[{s}:] ({oc.status}/{None if oc.out is None else len(oc.out)} vs {oc2.status}/{None if oc2.out is None else len(oc2.out)})"))
    return out, oc


def work(chunk):
    return [judge_one(c, work.scratch)[0] for c in chunk]


def pipe_matrix(run, scratch):
    """file/stdin x file/stdout, in-process fakes and real subprocesses."""
    pal = C.palette(5)
    samples = {
        "hrs": (["-w", "8", "-r", "4"], F.hrs_file(pal, C.body_lin(16, 3, 1))),
        "max": (["-w", "16"], F.max_file(C.body_lin(8, 5, 1))),
        "pix": ([], C.body_lin(32, 7, 1)),
        "mge": ([], F.mge_rle_file(pal, bytes((i // 41) & 255 for i in range(32000)), Chooser(()))),
        "rat": ([], F.rat_file(pal, bytes((i // 31) & 255 for i in range(199 * 160)), Chooser(()))),
        "cm3": ([], F.cm3_raw_file(pal, C.body_lin(192 * 160, 1, 0))),
    }
    samples = [(t, o, d) for t, (o, d) in sorted(samples.items())]
    # every option of the tools that read standard input, combined with the pipes (skip needs a non-seekable stream)
    samples += [
        ("hrs", ["-w", "8", "-r", "4", "-s", "5"], b"JUNK!" + F.hrs_file(pal, C.body_lin(16, 3, 1))),
        ("hrs", ["-w", "8", "-r", "4", "-s", "0"], F.hrs_file(pal, C.body_lin(16, 3, 1))),
        ("max", ["-w", "16", "-s", "3"], b"abc" + F.max_file(C.body_lin(8, 5, 1))),
        ("max", ["-w", "16", "-r", "3", "-br"], F.max_file(C.body_lin(8, 5, 1))),
        ("max", ["-newsroom"], F.newsroom_file(2, 5, C.body_lin(10, 5, 3))),
        ("max", ["-newsroom", "-s", "2"], b"zz" + F.newsroom_file(2, 5, C.body_lin(10, 5, 3))),
        ("max", ["-w", "16", "-i"], F.max_file(C.body_lin(8, 5, 1))),
        # every header variant of the formats that can come through a pipe
        ("cm3", [], F.cm3_raw_file(pal, C.body_lin(192 * 160, 3, 1), False, True)),
        ("cm3", [], F.cm3_raw_file(pal, C.body_lin(384 * 160, 5, 2), True, False)),
        ("cm3", [], F.cm3_raw_file(pal, C.body_lin(384 * 160, 7, 3), True, True)),
        ("mge", [], F.mge_raw_file(pal, C.body_lin(32000, 3, 1))),
        ("mge", [], F.mge_raw_file(pal, C.body_lin(32000, 5, 2), rgb_flag=1)),
    ]
    env = dict(os.environ)
    env["PYTHONPATH"] = core.REPO
    for tool, opts, data in samples:
        base = T.run_tool(tool, data, opts, scratch)
        for use_in in ([False, True] if tool in T.STDIN_OK else [False]):
            for use_out in ([False, True] if tool in T.STDOUT_OK else [False]):
                run.states += 1
                run.transitions += 1
                if not (use_in or use_out):
                    continue
                if use_in and not use_out:
                    continue  # a single positional argument is the input file: stdin + output file cannot be expressed
                oc = T.run_tool(tool, data, opts, scratch, use_stdin=use_in, use_stdout=use_out)
                run.evaluations += 1
                case = {"tool": tool, "opts": opts, "stdin": use_in, "stdout": use_out, "data_hex": data.hex() if len(data) < 4096 else None, "gen": "pipes"}
                if oc.key() != base.key():
                    run.violation("pipe-differs-from-file", [tool, "pipes"], case, f"{tool} stdin={use_in} stdout={use_out}: {oc.status}/{None if oc.out is None else len(oc.out)} vs files {base.status}/{None if base.out is None else len(base.out)}")
                # real subprocess
                inp = os.path.join(scratch, f"p_{tool}.in")
                outp = os.path.join(scratch, f"p_{tool}.out")
                with open(inp, "wb") as f:
                    f.write(data)
                if os.path.exists(outp):
                    os.remove(outp)
                argv = [sys.executable, "-m", T.TOOLS[tool][0]] + list(opts)
                if not use_in:
                    argv.append(inp)
                if not use_out:
                    argv.append(outp)
                p = subprocess.run(argv, input=data if use_in else None, capture_output=True, env=env, cwd=scratch, timeout=120)
                got = p.stdout if use_out else (open(outp, "rb").read() if os.path.exists(outp) else None)
                run.evaluations += 1
                run.count("subprocess_runs")
                if p.returncode != 0 or got != base.out:
                    run.violation("pipe-differs-from-file", [tool, "pipes", "subprocess"], case, f"{tool} subprocess stdin={use_in} stdout={use_out}: rc={p.returncode} len={None if got is None else len(got)} vs {None if base.out is None else len(base.out)}; stderr={p.stderr[-200:]!r}")


def run(run):
    run.rule = ("cases = full product of the option cube of each tool (width, rows, skip, mode, header variant) on well-formed files; "
                "distinct = distinct (tool, options, file); non-trivial = file has a non-empty pixel area")
    run.assumptions = ["'valid option combination' = everything the tools' own argparse validators accept (positive width/rows, skip >= 0)",
                       "well-formed MAX = first byte 0 and a length field consistent with the chosen width; well-formed PIX = square (side*side/2 bytes)"]
    cases = gen(run)
    work.scratch = run.scratch_dir()
    keys = set()
    i = 0
    for res in core.pmap(work, cases, chunk=128):
        for verdicts in res:
            case = cases[i]
            i += 1
            run.evaluations += 1
            run.count("runs:" + case["tool"])
            keys.add(hash((case["tool"], tuple(case["opts"]), case["data"])))
            if i % 2500 == 1:
                run.sample({"tool": case["tool"], "opts": case["opts"], "file_hex": case["data"][:40].hex(), "expected_dims": case["dims"], "expect": case["expect"]})
            for sym, detail in verdicts:
                run.violation(sym, case["features"], _rc(case), detail)
    run.distinct_n = len(keys)
    pipe_matrix(run, run.scratch_dir())


def _rc(case):
    return {"tool": case["tool"], "opts": case["opts"], "data_hex": case["data"].hex() if len(case["data"]) <= 8192 else None, "data_len": len(case["data"]),
            "dims": case["dims"], "expect": case["expect"], "skip": case["skip"], "label": case["label"], "features": case["features"], "gen": "cube"}


def replay(case):
    import shutil
    import tempfile
    if case.get("gen") != "cube" or not case.get("data_hex"):
        return {"violations": [], "note": "not replayable standalone; rerun the (deterministic) check"}
    d = tempfile.mkdtemp(prefix="verif_replay_")
    c = dict(case)
    c["data"] = bytes.fromhex(case["data_hex"])
    c["dims"] = tuple(case["dims"])
    v, oc = judge_one(c, d)
    shutil.rmtree(d, ignore_errors=True)
    return {"status": oc.status, "out_len": None if oc.out is None else len(oc.out), "violations": v}
