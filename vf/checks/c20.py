"""C20 Bundled string helpers compute the Color BASIC function they stand for.

The procedure text of the live ecb.b09 is executed by the BASIC09 reference interpreter:
ecb_instr on all (start 1..8, subject over {A,B,C} of length <= 5 (6 in the thorough tier), pattern of length <= 3),
result variable pre-set to 0 and to 99, plus subjects of 31..41 characters at string size 80; ecb_string on counts 0..255 x strings; the read
filter on "" and on every numeric spelling the DATA path produces.  Expected values come
from the Color BASIC model.  Where real BASIC09 behaviour is not certain (string slices
reaching past the end) both plausible behaviours are run; a violation is reported only
when it is a violation under both.
"""
import itertools

from vf import core
from vf.b09 import interp as I
from vf.b09 import runtime as R
from vf.decb import model as D

LEVEL = "model_checking"
WORLDS = [{"str_past_end": "clamp"}, {"str_past_end": "error"}]


def q(s):
    return '"' + s + '"'


def run_driver(body, decls, size=32, world=None):
    text = "procedure drv\n" + decls + "\n" + body + "\n"
    return R.run_b09(text, size=size, world=world, horizon=200000)


def instr_case(c):
    start, subj, pat, preset = c[:4]
    size = c[4] if len(c) > 4 else 32
    decls = "dim r: real\ndim s0, s1: string" + (f"[{size}]" if size != 32 else "")
    body = f"r := {preset}\ns0 := {q(subj)}\ns1 := {q(pat)}\nrun ecb_instr({float(start)}, s0, s1, r)"
    exp = D.Machine("10 REM").fn("INSTR", [("num", float(start)), ("str", subj), ("str", pat)])
    outs = []
    for w in WORLDS:
        r = run_driver(body, decls, size=size, world=w)
        if r["status"] == "ok":
            outs.append(("value", r["env"].get("r")))
        else:
            outs.append((r["status"], r["detail"]))
    return exp, outs


def string_case(c):
    count, s, size = c
    decls = f"dim o: string[{size}]\ndim s0: string[{size}]"
    body = f"s0 := {q(s)}\nrun ecb_string({float(count)}, s0, o)"
    try:
        exp = D.Machine("10 REM").fn("STRING$", [("num", float(count)), ("str", s)])
    except D.DecbError as e:
        exp = ("error", e.code)
    outs = []
    for w in WORLDS:
        r = run_driver(body, decls, size=size, world=w)
        if r["status"] == "ok":
            outs.append(("value", r["env"].get("o")))
        else:
            outs.append((r["status"], r["detail"]))
    return exp, outs


def filter_case(c):
    text, expected = c
    decls = "dim o: real\ndim s0: string"
    body = f"o := 77\ns0 := {q(text)}\nrun ecb_read_filter(s0, o)"
    outs = []
    for w in WORLDS:
        r = run_driver(body, decls, world=w)
        if r["status"] == "ok":
            outs.append(("value", r["env"].get("o")))
        else:
            outs.append((r["status"], r["detail"]))
    return expected, outs


def judge(kind, c):
    exp, outs = {"instr": instr_case, "string": string_case, "filter": filter_case}[kind](c)
    if exp is I.UNSPEC:
        return "undecided", None
    verdicts = []
    for o in outs:
        if o[0] == "value":
            if o[1] is I.UNSPEC or o[1] is None and False:
                verdicts.append("undecided")
            elif isinstance(exp, tuple) and exp[0] == "error":
                verdicts.append(f"Color BASIC raises ?{exp[1]} ERROR but the helper returns {o[1]!r}")
            elif o[1] is None:
                verdicts.append(f"the helper leaves its result parameter unassigned (expected {exp!r})")
            elif (isinstance(exp, str) and o[1] == exp) or (not isinstance(exp, str) and not isinstance(o[1], str) and abs(float(o[1]) - float(exp)) < 1e-9):
                verdicts.append("agree")
            else:
                verdicts.append(f"the helper returns {o[1]!r}, Color BASIC gives {exp!r}")
        elif o[0] == "b09-error":
            if isinstance(exp, tuple) and exp[0] == "error":
                verdicts.append("agree")
            else:
                verdicts.append(f"the helper stops with {o[1]} where Color BASIC gives {exp!r}")
        elif o[0] in ("abort:unspec",):
            verdicts.append("undecided")
        else:
            verdicts.append(f"model abort {o[0]} {o[1]}")
    if all(v == "agree" for v in verdicts):
        return "agree", None
    if any(v in ("agree", "undecided") for v in verdicts):
        return "undecided", None
    return "violation", verdicts[0] if verdicts[0] == verdicts[1] else " | ".join(f"[{w['str_past_end']}] {v}" for w, v in zip(WORLDS, verdicts))


def work(chunk):
    return [judge(k, c) for k, c in chunk]


def gen(run):
    quick = run.tier == "quick"
    cases = []
    alpha = "ABC"
    maxs = 5 if quick else 6
    subjects = [""] + ["".join(p) for n in range(1, maxs + 1) for p in itertools.product(alpha, repeat=n)]
    patterns = ["".join(p) for n in range(0, 4) for p in itertools.product(alpha, repeat=n)]
    for d in core.cube(run, [("start", range(1, 9 if quick else 10)), ("subj", subjects), ("pat", patterns), ("preset", [0, 99])]):
        cases.append(("instr", (d["start"], d["subj"], d["pat"], d["preset"])))
    # subjects longer than BASIC09's default 32 bytes (requested string size 80): one B at every column 28..41 of a run of A's
    for d in core.cube(run, [("len", [31, 32, 33, 34, 40, 41]), ("col", range(28, 42)), ("pat", ["B", "AB", "BA", "ABA", "BB"]), ("start", [1, 2, 31, 32, 33, 34, 36])]):
        if d["col"] > d["len"]:
            continue
        subj = "A" * (d["col"] - 1) + "B" + "A" * (d["len"] - d["col"])
        cases.append(("instr", (d["start"], subj, d["pat"], 99, 80)))
    # patterns longer than 32 characters (a 32-byte local or parameter inside the helper would cut them)
    for d in core.cube(run, [("plen", [31, 32, 33, 34, 40]), ("at", [1, 2, 5]), ("start", [1, 2, 6]), ("tail", [0, 3])]):
        pat = ("ABC" * 14)[: d["plen"]]
        subj = "C" * (d["at"] - 1) + pat + "B" * d["tail"]
        if len(subj) > 80:
            continue
        cases.append(("instr", (d["start"], subj, pat, 99, 80)))
        cases.append(("instr", (d["start"], subj, pat[:-1] + "Z", 99, 80)))
    for d in core.cube(run, [("count", range(0, 256)), ("s", ["A", "AB", "BA", ""]), ("size", [255])]):
        cases.append(("string", (d["count"], d["s"], d["size"])))
    for d in core.cube(run, [("count", [0, 1, 2, 31, 32]), ("s", ["A", "XY"]), ("size", [32, 80])]):
        cases.append(("string", (d["count"], d["s"], d["size"])))
    # read filter: "" and str(float(x)) for the DATA literal spellings
    spell = ["1", "1.", "1.0", ".5", "0.5", "1E2", "1E+2", "1.5E-1", "-1", "+1", "-2.5", "0", "00012", "123456", "0.001", "12345678", "3.14159", "9", "95", "900.25", "0.09", "99999", "-9", "8", "10", "90", "9.5E3", "2", "20", "3", "4", "5", "6", "7", "70", "-0.5"]
    seen = set()
    for sp in spell:
        t = str(float(sp))
        if t in seen:
            continue
        seen.add(t)
        cases.append(("filter", (t, float(sp))))
    for hx in ("0", "FF", "7FFF", "8000", "FFFF"):
        cases.append(("filter", (str(int(hx, 16)), float(int(hx, 16)))))
    cases.append(("filter", ("", 0.0)))
    # raw digit strings (a quoted DATA item, or a string the program itself hands to the filter): every one-character
    # digit and a few longer ones -- "anything else" in the helper's contract is its numeric value
    raw = [str(d) for d in range(10)] + ["10", "19", "90", "99", "-9", "-1", "00012", "123456"]
    for t in raw:
        if t not in seen:
            seen.add(t)
            cases.append(("filter", (t, float(t))))
    run.states += len(seen) + 6
    run.transitions += len(seen) + 6
    return cases


def run(run):
    run.rule = ("ecb_instr: start x subject x pattern x preset (exhaustive over the alphabet/lengths); ecb_string: counts 0..255 x strings; ecb_read_filter: '' + str(float(x)) of every DATA "
                "numeric spelling + hex values; distinct = argument tuples; non-trivial = decided (expected value defined and both BASIC09 worlds agree on a verdict)")
    run.assumptions = ["expected values = Color BASIC model (INSTR with an empty pattern is UNSPEC -> no verdict)", "string slices past the end of a string: both 'clamp' and 'error' behaviours are executed; a violation must hold under both"]
    cases = gen(run)
    i = 0
    decided = 0
    for res in core.pmap(work, cases, chunk=200):
        for verdict, detail in res:
            kind, c = cases[i]
            i += 1
            run.evaluations += 2
            run.count(f"{kind}:{verdict}")
            if verdict != "undecided":
                decided += 1
            if i % 900 == 1:
                run.sample({"helper": kind, "arguments": list(c), "verdict": verdict})
            if verdict == "violation":
                run.violation("helper-result-differs", {"helper:" + kind}, {"kind": kind, "args": list(c)}, f"ecb_{'read_filter' if kind == 'filter' else kind}{c}: {detail}")
    # program level: the reading of empty DATA items through the emitted READ / ecb_read_filter wiring
    from vf import sem
    from vf.checks import c03
    progs = [c for c in c03.gen_data(run, quick=True) if "data-empty-item" in c["features"]]
    # the helpers as the translated program calls them: every operand form of the start index / count / strings
    starts = ["1", "P", "-P+4", "+P", "P*2-1", "INT(P)", "(P)", "P+0", "LEN(B$)+1", "- -P", "NOT -3", "P AND 3", "M(1)"]
    for st in starts:
        for subj, pat in (("A$", "B$"), ('"ABCABC"', '"C"'), ("A$+B$", "B$+B$"), ("LEFT$(A$,4)", "MID$(A$,3,1)")):
            t = f'10 P=2:A$="ABCABC":B$="C":M(1)=3\n20 Q=INSTR({st},{subj},{pat}):PRINT Q\n30 IF INSTR({st},{subj},{pat})>0 THEN PRINT "Y"\n'
            progs.append({"text": t, "opts": {"initialize_vars": True, "default_str_storage": 80}, "features": {"instr-program"}, "origin": f"INSTR({st},{subj},{pat})"})
    for subj, pat in (("A$", "B$"), ('"ABCABC"', '"CA"')):
        t = f'10 A$="ABCABC":B$="C"\n20 Q=INSTR({subj},{pat}):PRINT Q\n'
        progs.append({"text": t, "opts": {"initialize_vars": True}, "features": {"instr-program", "instr-2-arguments"}, "origin": f"INSTR({subj},{pat})"})
    for cnt in ["3", "P", "-P+5", "+P", "P*2", "INT(P)", "LEN(B$)", "0", "M(1)"]:
        for s_ in ('"*"', "B$", "A$", 'A$+"Z"', "MID$(A$,2,1)", "CHR$(65)"):
            t = f'10 P=2:A$="XYZ":B$="Q":M(1)=3\n20 R$=STRING$({cnt},{s_}):PRINT "<";R$;">"\n30 PRINT STRING$({cnt},{s_});"|"\n'
            progs.append({"text": t, "opts": {"initialize_vars": True, "default_str_storage": 80}, "features": {"string-program"}, "origin": f"STRING$({cnt},{s_})"})
    run.states += len(progs)
    run.transitions += len(progs)
    j = 0
    for res in core.pmap(_work_prog, progs, chunk=60):
        for kind, sym, detail in res:
            c = progs[j]
            j += 1
            run.evaluations += 1
            run.count("data-programs:" + kind)
            if kind in ("agree", "violation"):
                decided += 1
            if kind == "violation":
                run.violation(sym, set(c["features"]) | {"data-program"}, {"kind": "program", "text": c["text"], "opts": c["opts"]}, f"{c['origin']}: {detail}\nsource: {c['text']!r}")
    run.distinct_n = decided


def _work_prog(chunk):
    from vf import sem
    out = []
    for c in chunk:
        v = sem.compare(c["text"], c["opts"], inputs=[], decb_horizon=2000)
        out.append((v.kind, v.symptom, v.detail))
    return out


def replay(case):
    if case.get("kind") == "program":
        from vf import sem
        v = sem.compare(case["text"], case["opts"], inputs=[], decb_horizon=2000)
        return {"verdict": v.kind, "violations": [v.symptom] if v.kind == "violation" else []}
    v, d = judge(case["kind"], tuple(case["args"]))
    return {"verdict": v, "violations": [d] if v == "violation" else []}
