"""C05 Functions turned into procedure calls are evaluated once, first, and in order.

Space: (a) every statement template (assignment, IF plain / ELSE / ELSE-IF arm / THEN-statement,
FOR bounds, PRINT / PRINT@ items, subscripts on either side, ON selector, every device
operand slot, READ / INPUT subscripts, WIDTH) x operand shapes built from convertible
functions (single, siblings, nested in each other, nested in built-ins, in subscripts),
with scripted device values so that the call order is observable; (b) each of them executed a second
time through a jump back to its line; (c) every simple template inside every control context
(IF / ELSE / ELSE-IF arms taken and not taken, nested IF, FOR body, before / after another statement or a remark).
Oracle: the BASIC09 model's log of runtime calls (procedure, input arguments) must equal
the Color BASIC model's evaluation log (innermost first, left to right); no temporary is
read before it is assigned; final values agree.
"""
import re

from vf import core, sem
from vf.b09 import runtime as R
from vf.gen import catalogue as K
from vf.gen import features as FE

LEVEL = "model_checking"

CONV = {"ecb_int", "ecb_val", "ecb_str", "ecb_hex", "ecb_instr", "ecb_string", "inkey", "ecb_button", "ecb_joystk", "ecb_point"}
N_IN = {"ecb_int": 1, "ecb_val": 1, "ecb_str": 1, "ecb_hex": 1, "ecb_instr": 3, "ecb_string": 2, "inkey": 0, "ecb_button": 1, "ecb_joystk": 1, "ecb_point": 2}

NUM = [("int", "INT( V )"), ("int2", "INT( V ) + INT( W )"), ("btn2", "BUTTON( 0 ) + BUTTON( 1 )"), ("joy2", "JOYSTK( 0 ) - JOYSTK( 1 )"), ("int_int", "INT( INT( V ) / 2 )"),
       ("abs_int", "ABS( INT( V ) )"), ("int_btn", "INT( BUTTON( 0 ) )"), ("point_btn", "POINT( BUTTON( 0 ) , 2 )"), ("elem_int", "M( INT( V ) )"), ("val_str", "VAL( STR$( V ) )"),
       ("len_str", "LEN( STR$( V ) )"), ("instr", 'INSTR( 1 , V$ , "B" )'), ("btn_int", "BUTTON( INT( V ) )"), ("mix3", "INT( V ) * BUTTON( 1 ) + VAL( V$ )"), ("neg_int", "- INT( V )"), ("not_int", "NOT INT( V )"), ("int_neg", "INT( - V / 2 )"), ("point_neg", "POINT( - V + 10 , W )"), ("int_not", "INT( NOT V )"), ("plain", "V + 1")]
STR = [("str", "STR$( V )"), ("inkey", "INKEY$"), ("inkey2", "INKEY$ + INKEY$"), ("hex", "HEX$( V )"), ("string_int", 'STRING$( INT( V ) , "X" )'), ("left_str", "LEFT$( STR$( V ) , 2 )"),
       ("str_len_inkey", "STR$( LEN( INKEY$ ) )"), ("str_hex", "STR$( V ) + HEX$( W )"), ("chr_btn", "CHR$( BUTTON( 0 ) + 65 )"), ("plain", 'V$ + "!"')]


def gen(run):
    cases = []
    for name, body, after in K.TEMPLATES:
        sl = K.slots(body)
        if not sl:
            continue
        defaults = ["7" if x == "n" else '"X"' for x in sl]
        combos = []
        for i, x in enumerate(sl):
            for sn, st in (NUM if x == "n" else STR):
                if sn in ("neg_int", "not_int") and body.startswith(("IF", "PRINT", "ON", "FOR")):
                    continue  # a leading sign / NOT in a condition or PRINT item runs into known C01 / C03 findings (sign applied to the whole comparison, raw numeric PRINT)
                sh = list(defaults)
                sh[i] = st
                combos.append((f"slot{i}={sn}", sh))
        for sn_n, st_n in NUM:
            if sn_n in ("neg_int", "not_int") and body.startswith(("IF", "PRINT", "ON", "FOR")):
                continue
            for sn_s, st_s in (STR if "s" in sl else [("-", "")]):
                if len(sl) > 1:
                    combos.append((f"all={sn_n}/{sn_s}", [st_n if x == "n" else st_s for x in sl]))
        seen = set()
        for how, sh in combos:
            text = K.template_program(K.fill(body, sh), after)
            text = text.replace('V = 3 : W = 4 : V$ = "AB" : A = 1', 'V = 3.5 : W = 4.5 : V$ = "AB" : A = 1')
            if text in seen:
                continue
            seen.add(text)
            cases.append({"text": text, "origin": f"{name}:{how}", "tpl": name})
            # the same statement executed twice with changed operands (jump back to its line): every call must be made again
            lines = text.rstrip("\n").split("\n")
            k = next((j for j, ln in enumerate(lines) if ln.startswith("100 ")), len(lines))
            again = lines[:k] + ["90 KK = KK + 1 : V = V + 1 : W = W + 1 : IF KK < 2 THEN 30"] + lines[k:]
            cases.append({"text": "\n".join(again) + "\n", "origin": f"{name}:{how}:twice", "tpl": name})
        run.states += 1 + len(seen)
        run.transitions += len(seen)
    # the result goes into the variable that is also the operand (RUN f(X, X): parameters are passed by reference)
    for stmt in ("V = INT( V )", "W = INT( W ) + INT( W )", "M( 2 ) = INT( M( 2 ) )", "V = ABS( INT( V ) )", "V$ = STR$( VAL( V$ ) )", "V$ = HEX$( LEN( V$ ) )", 'V$ = STRING$( 2 , V$ )',
                 'V = INSTR( 1 , V$ , "B" ) + V', "V = INT( V ) : V = INT( V / 2 )", "W = BUTTON( W + 1 )", "V = VAL( V$ ) + INT( V )"):
        for vals in ("V = -2.5 : W = -0.25 : M( 2 ) = -7.5", "V = 2.5 : W = 0.75 : M( 2 ) = 7.5", "V = -3 : W = -1 : M( 2 ) = 0"):
            text = K.program_for(["DIM M( 12 ) , N$( 5 ) , Q( 3 , 3 )", vals + ' : V$ = "AB" : A = 1', stmt])
            cases.append({"text": text, "origin": f"self:{stmt}:{vals}", "tpl": "self"})
    run.states += 33
    run.transitions += 33
    # every simple statement template inside every control context (IF arms taken and not taken, FOR body, after / before
    # another statement, after a remark), key operand shapes in all slots
    from vf.gen import spaces
    key_n = [x for x in NUM if x[0] in (("int", "btn2", "int_int", "elem_int") if run.tier == "quick" else [y[0] for y in NUM])]
    key_s = [x for x in STR if x[0] in (("str", "inkey2", "string_int") if run.tier == "quick" else [y[0] for y in STR])]
    n_ctx = 0
    for name, body, after in K.TEMPLATES:
        if body.startswith(("IF", "FOR", "READ", "ON", "DATA")) or after:
            continue
        sl = K.slots(body)
        if not sl:
            continue
        seen = set()
        for sn_n, st_n in key_n:
            if sn_n in ("neg_int", "not_int") and body.startswith("PRINT"):
                continue
            for sn_s, st_s in (key_s if "s" in sl else [("-", "")]):
                filled = K.fill(body, [st_n if x == "n" else st_s for x in sl])
                for c in spaces.CONTEXTS[1:]:
                    cname, ctpl, cafter, cbefore = spaces.ctx_parts(c)
                    for aval in ((1, 2, 3) if cname in ("then", "else", "then_else", "elseif_arm", "elseif_else", "elseif_both", "nested_then") else (1,)):
                        if cname == "elseif_arm" and aval == 3:
                            continue  # ELSE-IF chain without a final ELSE and no arm taken: the known C02 finding (spins), not C05's subject
                        text = K.template_program(ctpl.replace("{}", filled), cafter, before=cbefore)
                        text = text.replace('V = 3 : W = 4 : V$ = "AB" : A = 1', f'V = 3.5 : W = 4.5 : V$ = "AB" : A = {aval} : B = 2')
                        if text in seen:
                            continue
                        seen.add(text)
                        cases.append({"text": text, "origin": f"ctx:{cname}:A={aval}:{name}:{sn_n}/{sn_s}", "tpl": name})
        n_ctx += len(seen)
    run.states += n_ctx
    run.transitions += n_ctx
    return cases


TMP = re.compile(r"tmp_\d+\$?")


def static_tmp_check(out):
    """'The emitted text never reads a temporary that the same statement group did not assign': within the text that belongs to
    one source line (label .. next label) the first occurrence of every temporary must be an assignment - the result (last)
    argument of a RUN, the left side of :=, or a READ / INPUT / GET target."""
    if not out:
        return None
    body = out.replace("\r\n", "\n").replace("\r", "\n")
    # user procedure only (the library has its own locals)
    idx = [m.start() for m in re.finditer(r"(?im)^procedure\s", body)]
    if idx:
        body = body[idx[-1]:]
    regions, cur = [], []
    for ln in body.split("\n"):
        if re.match(r"\s*\d+\s", ln) and cur:
            regions.append(cur)
            cur = []
        cur.append(ln)
    regions.append(cur)
    for reg in regions:
        assigned = set()
        for ln in reg:
            if re.match(r"(?i)\s*(dim|param|type)\b", ln):
                continue
            for stmt in re.split(r"\\", re.sub(r'"[^"]*"', '""', ln)):
                st = stmt.strip()
                st = re.sub(r"^\d+\s+", "", st)
                writes = set()
                m = re.match(r"(?i)(RUN\s+\w+\s*\()(.*)\)\s*$", st)
                if m:
                    # last top-level argument
                    depth, last = 0, 0
                    args = m.group(2)
                    for i, ch in enumerate(args):
                        if ch == "(":
                            depth += 1
                        elif ch == ")":
                            depth -= 1
                        elif ch == "," and depth == 0:
                            last = i + 1
                    la = args[last:].strip()
                    if TMP.fullmatch(la):
                        writes.add(la)
                    reads = TMP.findall(args[:last])
                else:
                    m2 = re.match(r"(?i)(tmp_\d+\$?)\s*:?=(?!=)", st)
                    m3 = re.match(r"(?i)(READ|INPUT|GET)\b(.*)$", st)
                    if m2:
                        writes.add(m2.group(1))
                        reads = TMP.findall(st[m2.end():])
                    elif m3:
                        writes |= set(TMP.findall(m3.group(2)))
                        reads = []
                    elif re.match(r"(?i)FOR\s+(tmp_\d+)\s*=", st):
                        writes.add(re.match(r"(?i)FOR\s+(tmp_\d+)", st).group(1))
                        reads = TMP.findall(st.split("=", 1)[1])
                    else:
                        reads = TMP.findall(st)
                for r in reads:
                    if r not in assigned:
                        return f"{r} is read in {st!r} but the text of this source line (from its label on) has not assigned it before"
                assigned |= writes
    return None


def judge(text, tpl=""):
    # FOR templates: an empty range is the known C02 finding (bottom- vs top-tested loop); only calls are judged there
    v = sem.compare(text, {"initialize_vars": True, "default_str_storage": 255}, script_factory=R.Script, decb_horizon=300, check_stop=False, check_store=not tpl.startswith("for"))
    if v.kind in ("outside", "refused"):
        return v.kind, v.symptom, v.detail, v.out
    if v.kind == "violation":
        return v.kind, v.symptom, v.detail, v.out
    st = static_tmp_check(v.out)
    if st:
        return "violation", "tmp-read-before-assign", st, v.out
    if v.decb is None or v.b09 is None:
        return v.kind, v.symptom, v.detail, v.out
    if v.kind == "noverdict" and v.symptom != "unspec-values":
        return v.kind, v.symptom, v.detail, v.out
    dl = [(n, tuple(a)) for n, a in v.decb["calls"] if n in CONV]
    bl = [(n, tuple(a[: N_IN[n]])) for n, a in v.b09["calls"] if n in CONV]

    def same(x, y):
        if x[0] != y[0] or len(x[1]) != len(y[1]):
            return False
        for p, q in zip(x[1], y[1]):
            if p == "UNSPEC" or q == "UNSPEC" or p is None:
                continue
            if isinstance(p, str) or isinstance(q, str):
                if p != q:
                    return False
            elif abs(float(p) - float(q)) > 1e-9:
                return False
        return True
    if len(dl) == len(bl) and all(same(x, y) for x, y in zip(dl, bl)):
        return v.kind, v.symptom, v.detail, v.out
    dn, bn = [x[0] for x in dl], [x[0] for x in bl]
    if sorted(dn) == sorted(bn) and len(dl) == len(bl):
        sym = "call-order-or-operand-differs"
    elif len(bl) < len(dl):
        sym = "call-lost"
    else:
        sym = "call-duplicated"
    k = next((i for i in range(min(len(dl), len(bl))) if not same(dl[i], bl[i])), min(len(dl), len(bl)))
    return "violation", sym, f"Color BASIC evaluates {dl}; the translation calls {bl}; first difference at call #{k + 1}", v.out


def work(chunk):
    return [judge(c["text"], c["tpl"]) for c in chunk]


def run(run):
    R.PRIMITIVE_HEX = True  # only the call order of HEX$ matters here; its value is C01's business
    from vf.decb import model as D
    D.STR_WITH_PRINT_BLANK = True  # STR$'s trailing blank is the known finding F03-str-trailing-blank; here only order/once/first are judged
    run.rule = ("statement templates x convertible-function operand shapes (one slot deviating; all slots), scripted device answers; distinct = distinct programs; "
                "non-trivial = program contains >= 1 convertible call and both models ran")
    run.assumptions = ["Color BASIC evaluates left to right, arguments before the call, the subscripts of an assignment target before its right-hand side",
                       "device functions answer 10*n+1 on their n-th evaluation (same script on both sides), so any order difference changes values"]
    cases = gen(run)
    i = 0
    decided = 0
    for res in core.pmap(work, cases, chunk=60):
        for kind, sym, detail, out in res:
            c = cases[i]
            i += 1
            run.evaluations += 1
            run.count("verdict:" + kind + (":" + sym if kind not in ("agree", "violation") else ""))
            if kind in ("agree", "violation"):
                decided += 1
            if i % 1500 == 1:
                run.sample({"program": c["text"], "origin": c["origin"], "verdict": kind, "symptom": sym})
            if kind == "violation":
                f = FE.source_features(c["text"]) | {"tpl:" + c["tpl"]}
                if c["tpl"].startswith("print") and any(re.search(r"PRINT.*[-+*/]", ln) for ln in c["text"].split("\n")[2:] if not ln.startswith(("100 ", "110 "))):
                    f.add("print-numeric-expression")
                run.violation(sym, f, {"text": c["text"]}, f"{c['origin']}: {detail}\nsource: {c['text']!r}\noutput tail: {(out or '')[-300:]!r}")
    run.distinct_n = decided


def replay(case):
    kind, sym, detail, out = judge(case["text"])
    return {"verdict": kind, "symptom": sym, "detail": detail, "violations": [sym] if kind == "violation" else []}
