"""C10 Every array and string gets exactly one declaration with the requested size.

Space: one variable of each kind (numeric/string scalar, numeric/string array with 1-3
subscripts) in each syntactic position x {DIMmed in the source or not} x default string
size {32, 80} x per-name size map {none, this name, other name, the other form of the
name} x initialize_vars; plus two-variable programs and duplicate-DIM programs.
Oracle, on the parsed output: arrays declared exactly once, before first use, bound+1 per
dimension (11 per used dimension when never DIMensioned); no identifier declared twice;
with a non-32 default every string identifier (temporaries too) carries STRING[n].
"""
import itertools
import re

from vf import core, tool
from vf.b09 import syntax as S

LEVEL = "model_checking"

# positions: (name, kinds it applies to, template) ; {v} is the variable reference text
POSITIONS = [
    ("assign-target", "nsaz", "{v} = {lit}"),
    ("rhs", "nsaz", "{z} = {v}"),
    ("in-builtin", "nsaz", "Z = {bi}"),
    ("in-conv", "na", "Z = INT( {v} ) + 1"),
    ("in-conv-str", "sz", "Z = VAL( {v} ) + 1"),
    ("read", "nsaz", "READ {v}"),
    ("input", "nsaz", "INPUT {v}"),
    ("line-input", "sz", "LINE INPUT {v}"),
    ("subscript", "na", "Y( {v} ) = 1"),
    ("print", "nsaz", "PRINT {v}"),
    ("device", "na", "SOUND {v} , 1"),
    ("device-str", "sz", "PLAY {v}"),
    ("for", "n", "FOR {v} = 1 TO 2 : NEXT {v}"),
    ("if-cond", "nsaz", "IF {cmp} THEN PRINT 1"),
    ("ifelse-cond", "nsaz", "IF {cmp} THEN PRINT 1 ELSE PRINT 2"),
    ("varptr", "nsaz", "Z = VARPTR( {v} )"),
    ("on", "na", "ON {v} GOTO 100"),
    ("concat", "sz", 'Z$ = "A" + {v} + "B"'),
    ("hprint", "nsaz", "HPRINT ( 1 , 2 ) , {v}"),
    ("instr", "sz", 'Z = INSTR( 1 , {v} , "A" )'),
]


def gen(run):
    cases = []
    kinds = {
        "n": [("V", None)],
        "s": [("V$", None)],
        "a": [("V(1)", 1), ("V(1,2)", 2), ("V(0,1,2)", 3)],
        "z": [("V$(1)", 1), ("V$(1,2)", 2)],
    }
    for pname, applies, tpl in POSITIONS:
        for kind in applies:
            for ref, nd in kinds[kind]:
                isstr = kind in "sz"
                fill = {
                    "v": ref,
                    "lit": '"S"' if isstr else "5",
                    "z": "Z$" if isstr else "Z",
                    "bi": f"LEN( {ref} )" if isstr else f"ABS( {ref} )",
                    "cmp": f'{ref} = "X"' if isstr else f"{ref} = 1",
                }
                stmt = tpl.format(**fill)
                dim_opts = [None]
                if kind in "az":
                    bounds = {1: ["3", "&H4"], 2: ["2,3"], 3: ["1,2,3"]}[nd]
                    dim_opts += bounds
                elif kind == "s":
                    dim_opts += ["scalar"]
                for dim in dim_opts:
                    for storage in (32, 80):
                        for cfg in ("none", "this", "other", "otherform"):
                            if cfg != "none" and not isstr:
                                continue
                            for init in (False, True):
                                cases.append({"pos": pname, "kind": kind, "ref": ref, "nd": nd, "stmt": stmt, "dim": dim, "storage": storage, "cfg": cfg, "init": init})
    run.states += len(cases)
    run.transitions += len(cases)
    return cases


def build(c):
    lines = []
    name = "V$" if c["kind"] in "sz" else "V"
    if c["dim"] == "scalar":
        lines.append(f"10 DIM {name}")
    elif c["dim"]:
        lines.append(f"10 DIM {name}({c['dim']})")
    lines.append(f"20 {c['stmt']}")
    lines.append('30 W$ = "K"')
    lines.append('100 DATA 1')
    cfgmap = {}
    if c["cfg"] == "this":
        cfgmap = {"V$()" if c["kind"] == "z" else "V$": 100}
    elif c["cfg"] == "other":
        cfgmap = {"Q$": 100, "Q$()": 120}
    elif c["cfg"] == "otherform":
        cfgmap = {"V$" if c["kind"] == "z" else "V$()": 100}
    return "\n".join(lines) + "\n", cfgmap


def declarations(procs):
    """-> decls [(name, dims, typ, order)], uses [(name, nsubs, order)] in textual order."""
    decls, uses = [], []
    order = 0
    for p in procs:
        for st in S.walk(p.body):
            order += 1
            if st.kind == "dim":
                for grp, typ in st.a["groups"]:
                    for nm, dims in grp:
                        decls.append((nm, tuple(dims), typ, order))
                continue
            if st.kind in ("type", "param"):
                continue
            for e in S.stmt_exprs(st):
                for sub in S.expr_walk(e):
                    if sub[0] == "var" and not sub[3]:
                        uses.append((sub[1], len(sub[2]), order))
    return decls, uses


def judge(c):
    text, cfgmap = build(c)
    m = tool.mods()
    cc = m["configs"].CompilerConfigs(string_configs=m["configs"].StringConfigs(strname_to_size=cfgmap)) if cfgmap else None
    r = tool.convert(text, default_str_storage=c["storage"], initialize_vars=c["init"], compiler_configs=cc)
    if not r.ok:
        return [("refused", r.kind)] if not r.refused else []
    try:
        procs = S.parse(r.text)
    except S.B09SyntaxError:
        return []
    decls, uses = declarations(procs)
    v = []
    # (b) nothing declared twice
    seen = {}
    for nm, dims, typ, order in decls:
        key = nm.lower()
        if key in seen:
            v.append(("declared-twice", f"{nm} is declared more than once"))
            break
        seen[key] = (dims, typ, order)
    first_use = {}
    for nm, ns, order in uses:
        first_use.setdefault(nm.lower(), (ns, order))
    # (a) arrays
    for nm, (ns, order) in sorted(first_use.items()):
        if nm.startswith("arr_"):
            if nm not in seen:
                v.append(("array-undeclared", f"{nm} is used with {ns} subscript(s) but never declared"))
                continue
            dims, typ, dorder = seen[nm]
            if dorder > order:
                v.append(("array-declared-after-use", f"{nm} is declared after its first use"))
            if nm == "arr_v" or nm == "arr_v$":
                if c["dim"] and c["dim"] != "scalar":
                    want = tuple(int(x[2:], 16) + 1 if x.startswith("&H") else int(x) + 1 for x in c["dim"].split(","))
                else:
                    want = (11,) * (c["nd"] or 1)
                if dims != want:
                    v.append(("array-dimensions", f"{nm} declared with dimensions {dims}, expected {want}"))
    # (c) strings
    if c["storage"] != 32:
        for nm, (ns, order) in sorted(first_use.items()):
            if not nm.endswith("$"):
                continue
            if nm not in seen:
                v.append(("string-undeclared", f"string {nm} appears but has no declaration (default size {c['storage']} requested)"))
                continue
            dims, typ, dorder = seen[nm]
            want = c["storage"]
            if nm == "v$" and c["dim"] == "scalar" and c["cfg"] == "this":
                want = 100
            if nm == "arr_v$" and c["dim"] and c["dim"] != "scalar" and c["cfg"] == "this":
                want = 100
            if typ is None or typ[0] != "STRING" or typ[1] != want:
                v.append(("string-size", f"string {nm} declared as {typ}, expected STRING[{want}]"))
    return v


def feats(c):
    f = {"pos:" + c["pos"], "kind:" + c["kind"], "dimmed" if c["dim"] else "not-dimmed", "storage:%d" % c["storage"], "cfg:" + c["cfg"]}
    if c["nd"]:
        f.add("subscripts:%d" % c["nd"])
        if c["nd"] >= 2 and not c["dim"]:
            f.add("implicit-array-dims>=2")
    if c["kind"] == "z" and not c["dim"]:
        f.add("implicit-string-array")
    if c["pos"] in ("read", "input", "line-input", "varptr"):
        f.add("unvisited-position")
    return f


def work(chunk):
    return [judge(c) for c in chunk]


EXTRA = [
    # (re-DIMensioning is a ?DD ERROR in Color BASIC: such programs are outside the fragment and not generated)
    ("joystk", "10 A=JOYSTK(0)\n", {}, ["uses-joystk"]),
    ("joystk-twice", "10 A=JOYSTK(0):B=JOYSTK(1)\n", {}, ["uses-joystk"]),
    ("two-strings", '10 A$="1":B$=A$+"2":PRINT A$;B$;STR$(1)\n', {"default_str_storage": 80}, []),
    ("two-arrays", "10 DIM A(3),B$(2)\n20 A(1)=C(2):B$(1)=D$(1)\n", {"default_str_storage": 80}, ["implicit-string-array"]),
    ("hbuff", "10 HBUFF 1,10\n", {}, []),
    ("tmp-strings", '10 PRINT HEX$(1);STR$(2);INKEY$\n', {"default_str_storage": 64}, []),
]


def judge_extra(text, opts):
    r = tool.convert(text, **opts)
    if not r.ok:
        return []
    try:
        procs = S.parse(r.text)
    except S.B09SyntaxError:
        return []
    decls, uses = declarations(procs)
    v = []
    seen = {}
    for nm, dims, typ, order in decls:
        if nm.lower() in seen:
            v.append(("declared-twice", f"{nm} is declared more than once"))
        seen[nm.lower()] = (dims, typ, order)
    st = opts.get("default_str_storage", 32)
    if st != 32:
        for nm, ns, order in uses:
            if nm.endswith("$"):
                d = seen.get(nm.lower())
                if d is None:
                    v.append(("string-undeclared", f"string {nm} has no declaration"))
                elif d[1] is None or d[1][1] != st:
                    v.append(("string-size", f"string {nm} declared as {d[1]}, expected STRING[{st}]"))
    for nm, ns, order in uses:
        if nm.lower().startswith("arr_") and nm.lower() not in seen:
            v.append(("array-undeclared", f"{nm} never declared"))
    return sorted(set(v))


def same_name_cases():
    """one base name used both as a scalar and as an array (string and numeric)"""
    out = []
    for isstr in (False, True):
        sfx = "$" if isstr else ""
        lit = '"S"' if isstr else "5"
        for dim in (None, "array", "scalar", "both"):
            if dim in ("scalar", "both") and not isstr:
                continue
            for storage in (32, 80):
                for cfg in ("none", "scalar", "array"):
                    if cfg != "none" and not isstr:
                        continue
                    for init in (False, True):
                        lines = []
                        if dim == "array":
                            lines.append(f"10 DIM V{sfx}(5)")
                        elif dim == "scalar":
                            lines.append(f"10 DIM V{sfx}")
                        elif dim == "both":
                            lines.append(f"10 DIM V{sfx},V{sfx}(5)")
                        lines.append(f"20 V{sfx}={lit}:V{sfx}(1)=V{sfx}")
                        lines.append(f"30 PRINT V{sfx};V{sfx}(1)")
                        out.append({"text": "\n".join(lines) + "\n", "isstr": isstr, "dim": dim, "storage": storage, "cfg": cfg, "init": init})
    return out


def judge_same(c):
    m = tool.mods()
    cfgmap = {"V$": 100} if c["cfg"] == "scalar" else ({"V$()": 120} if c["cfg"] == "array" else {})
    cc = m["configs"].CompilerConfigs(string_configs=m["configs"].StringConfigs(strname_to_size=cfgmap)) if cfgmap else None
    r = tool.convert(c["text"], default_str_storage=c["storage"], initialize_vars=c["init"], compiler_configs=cc)
    if not r.ok:
        return []
    try:
        procs = S.parse(r.text)
    except S.B09SyntaxError:
        return []
    decls, uses = declarations(procs)
    v = []
    seen = {}
    for nm, dims, typ, order in decls:
        if nm.lower() in seen:
            v.append(("declared-twice", f"{nm} is declared more than once"))
        seen[nm.lower()] = (dims, typ, order)
    sfx = "$" if c["isstr"] else ""
    arr = "arr_v" + sfx
    if arr not in seen:
        v.append(("array-undeclared", f"{arr} never declared"))
    else:
        want = (6,) if c["dim"] in ("array", "both") else (11,)
        if seen[arr][0] != want:
            v.append(("array-dimensions", f"{arr} declared {seen[arr][0]}, expected {want}"))
    if c["isstr"] and c["storage"] != 32:
        for nm, want in (("v$", 100 if (c["cfg"] == "scalar" and c["dim"] in ("scalar", "both")) else c["storage"]),
                         ("arr_v$", 120 if (c["cfg"] == "array" and c["dim"] in ("array", "both")) else c["storage"])):
            d = seen.get(nm)
            if d is None:
                v.append(("string-undeclared", f"string {nm} has no declaration (default size {c['storage']})"))
            elif d[1] is None or d[1][0] != "STRING" or d[1][1] != want:
                v.append(("string-size", f"string {nm} declared as {d[1]}, expected STRING[{want}]"))
    return v


def work_same(chunk):
    return [judge_same(c) for c in chunk]


def run(run):
    run.rule = ("programs = position x kind x (DIMmed with 1-3 constant/hex bounds | not) x storage {32,80} x size map x initialize_vars, one variable under test each; "
                "distinct = distinct abstract cases; non-trivial = accepted and parsed")
    run.assumptions = ["declarations and uses are read from the output parsed by vf/b09/syntax.py"]
    cases = gen(run)
    i = 0
    n = 0
    for res in core.pmap(work, cases, chunk=100):
        for verdicts in res:
            c = cases[i]
            i += 1
            run.evaluations += 1
            n += 1
            if i % 1500 == 1:
                run.sample({"program": build(c)[0], "config": build(c)[1], "storage": c["storage"], "initialize_vars": c["init"], "verdicts": verdicts})
            for sym, detail in verdicts:
                run.violation(sym, feats(c), {k: c[k] for k in c}, f"{c['pos']} {c['ref']} dim={c['dim']} storage={c['storage']} cfg={c['cfg']} init={c['init']}: {detail}\nsource: {build(c)[0]!r}")
    same = same_name_cases()
    run.states += len(same)
    run.transitions += len(same)
    j = 0
    for res in core.pmap(work_same, same, chunk=50):
        for verdicts in res:
            c = same[j]
            j += 1
            run.evaluations += 1
            n += 1
            for sym, detail in verdicts:
                run.violation(sym, {"same-name", "dim:%s" % c["dim"], "cfg:" + c["cfg"], "storage:%d" % c["storage"]}, dict(c, same=True), f"same-name dim={c['dim']} storage={c['storage']} cfg={c['cfg']} init={c['init']}: {detail}\nsource: {c['text']!r}")
    for name, text, opts, fl in EXTRA:
        for init in (False, True):
            o = dict(opts)
            o["initialize_vars"] = init
            run.evaluations += 1
            run.states += 1
            run.transitions += 1
            for sym, detail in judge_extra(text, o):
                run.violation(sym, set(fl) | {"extra:" + name}, {"extra": name, "text": text, "opts": o}, f"{name}: {detail}\nsource: {text!r}")
    run.distinct_n = n


def replay(case):
    if case.get("same"):
        return {"violations": [list(x) for x in judge_same(case)]}
    if "extra" in case:
        return {"violations": [list(x) for x in judge_extra(case["text"], case["opts"])]}
    return {"violations": [list(x) for x in judge(case)]}
