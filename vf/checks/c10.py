"""C10 Every array and string gets exactly one declaration with the requested size.

Space: one variable of each kind (numeric/string scalar, numeric/string array with 1-3
subscripts) in each syntactic position x {DIMmed in the source or not} x default string
size {32, 80} x per-name size map {none, this name, other name, the other form of the
name} x initialize_vars; plus two-variable programs and duplicate-DIM programs.
Oracle, on the parsed output: arrays declared exactly once, before first use, bound+1 per
dimension (11 per used dimension when never DIMensioned); no identifier declared twice;
with a non-32 default every string identifier (temporaries too) carries STRING[n].
"""
import itertools
import re

from vf import core, tool
from vf.b09 import syntax as S

LEVEL = "model_checking"

# positions: (name, kinds it applies to, template) ; {v} is the variable reference text
POSITIONS = [
    ("assign-target", "nsaz", "{v} = {lit}"),
    ("rhs", "nsaz", "{z} = {v}"),
    ("in-builtin", "nsaz", "Z = {bi}"),
    ("in-conv", "na", "Z = INT( {v} ) + 1"),
    ("in-conv-str", "sz", "Z = VAL( {v} ) + 1"),
    ("read", "nsaz", "READ {v}"),
    ("input", "nsaz", "INPUT {v}"),
    ("line-input", "sz", "LINE INPUT {v}"),
    ("subscript", "na", "Y( {v} ) = 1"),
    ("print", "nsaz", "PRINT {v}"),
    ("print-neg", "na", "PRINT - {v} ; NOT {v}"),
    ("device", "na", "SOUND {v} , 1"),
    ("device-str", "sz", "PLAY {v}"),
    ("for", "n", "FOR {v} = 1 TO 2 : NEXT {v}"),
    ("for-start", "na", "FOR I = {v} TO 9 : NEXT I"),
    ("for-end", "na", "FOR I = 1 TO {v} : NEXT I"),
    ("for-step", "na", "FOR I = 1 TO 9 STEP {v} + 1 : NEXT I"),
    ("for-step-str", "sz", "FOR I = 1 TO 9 STEP LEN( {v} ) + 1 : NEXT I"),
    ("if-cond", "nsaz", "IF {cmp} THEN PRINT 1"),
    ("ifelse-cond", "nsaz", "IF {cmp} THEN PRINT 1 ELSE PRINT 2"),
    ("varptr", "nsaz", "Z = VARPTR( {v} )"),
    ("on", "na", "ON {v} GOTO 100"),
    ("concat", "sz", 'Z$ = "A" + {v} + "B"'),
    ("hprint", "nsaz", "HPRINT ( 1 , 2 ) , {v}"),
    ("instr", "sz", 'Z = INSTR( 1 , {v} , "A" )'),
]


def gen(run):
    cases = []
    kinds = {
        "n": [("V", None)],
        "s": [("V$", None)],
        "a": [("V(1)", 1), ("V(1,2)", 2), ("V(0,1,2)", 3)],
        "z": [("V$(1)", 1), ("V$(1,2)", 2)],
    }
    for pname, applies, tpl in POSITIONS:
        for kind in applies:
            for ref, nd in kinds[kind]:
                isstr = kind in "sz"
                fill = {
                    "v": ref,
                    "lit": '"S"' if isstr else "5",
                    "z": "Z$" if isstr else "Z",
                    "bi": f"LEN( {ref} )" if isstr else f"ABS( {ref} )",
                    "cmp": f'{ref} = "X"' if isstr else f"{ref} = 1",
                }
                stmt = tpl.format(**fill)
                dim_opts = [None]
                if kind in "az":
                    bounds = {1: ["3", "&H4", "0", "&H0", "&H7FFF", "&H7FFE", "32767"], 2: ["2,3", "2,0", "0,3"], 3: ["1,2,3", "4,0,&H0"]}[nd]
                    dim_opts += bounds
                elif kind == "s":
                    dim_opts += ["scalar"]
                for dim in dim_opts:
                    for storage in (32, 80):
                        for cfg in ("none", "this", "other", "otherform"):
                            if cfg != "none" and not isstr:
                                continue
                            for init in (False, True):
                                cases.append({"pos": pname, "kind": kind, "ref": ref, "nd": nd, "stmt": stmt, "dim": dim, "storage": storage, "cfg": cfg, "init": init})
    # the same variable occurrences inside every arm of IF chains / a FOR body (a declaration pass that skips an arm leaves them undeclared)
    for pname, applies, tpl in POSITIONS:
        if pname not in ("assign-target", "rhs", "print", "concat", "in-conv"):
            continue
        for kind in applies:
            if kind == "n":
                continue
            ref, nd = kinds[kind][0]
            isstr = kind in "sz"
            fill = {"v": ref, "lit": '"S"' if isstr else "5", "z": "Z$" if isstr else "Z", "bi": f"LEN( {ref} )" if isstr else f"ABS( {ref} )", "cmp": f'{ref} = "X"' if isstr else f"{ref} = 1"}
            stmt = tpl.format(**fill)
            for cname, ctpl in ARM_CONTEXTS:
                for dim in ([None, "3"] if kind in "az" else [None, "scalar"]):
                    for storage in (32, 80):
                        cases.append({"pos": pname, "kind": kind, "ref": ref, "nd": nd, "stmt": ctpl.replace("{}", stmt), "dim": dim, "storage": storage, "cfg": "none", "init": True, "ctx": cname})
    run.states += len(cases)
    run.transitions += len(cases)
    return cases


ARM_CONTEXTS = [
    ("then", "IF X = 1 THEN {}"),
    ("else", "IF X = 1 THEN PRINT 1 ELSE {}"),
    ("elseif-arm", "IF X = 1 THEN PRINT 1 ELSE IF X = 2 THEN {} ELSE PRINT 3"),
    ("elseif-final-else", "IF X = 1 THEN PRINT 1 ELSE IF X = 2 THEN PRINT 2 ELSE {}"),
    ("elseif2-final-else", "IF X = 1 THEN PRINT 1 ELSE IF X = 2 THEN PRINT 2 ELSE IF X = 3 THEN PRINT 3 ELSE {}"),
    ("nested-then", "IF X = 1 THEN IF Y = 2 THEN {} ELSE PRINT 4"),
    ("nested-else", "IF X = 1 THEN IF Y = 2 THEN PRINT 4 ELSE {}"),
    ("for-body", "FOR I = 1 TO 2 : {} : NEXT I"),
    ("after-colon", "X = 1 : {}"),
]


def build(c):
    lines = []
    name = "V$" if c["kind"] in "sz" else "V"
    if c["dim"] == "scalar":
        lines.append(f"10 DIM {name}")
    elif c["dim"]:
        lines.append(f"10 DIM {name}({c['dim']})")
    lines.append(f"20 {c['stmt']}")
    lines.append('30 W$ = "K"')
    lines.append('100 DATA 1')
    cfgmap = {}
    if c["cfg"] == "this":
        cfgmap = {"V$()" if c["kind"] == "z" else "V$": 100}
    elif c["cfg"] == "other":
        cfgmap = {"Q$": 100, "Q$()": 120}
    elif c["cfg"] == "otherform":
        cfgmap = {"V$" if c["kind"] == "z" else "V$()": 100}
    return "\n".join(lines) + "\n", cfgmap


def declarations(procs):
    """-> decls [(name, dims, typ, order)], uses [(name, nsubs, order)] in textual order."""
    decls, uses = [], []
    order = 0
    for p in procs:
        for st in S.walk(p.body):
            order += 1
            if st.kind == "dim":
                for grp, typ in st.a["groups"]:
                    for nm, dims in grp:
                        decls.append((nm, tuple(dims), typ, order))
                continue
            if st.kind in ("type", "param"):
                continue
            for e in S.stmt_exprs(st):
                for sub in S.expr_walk(e):
                    if sub[0] == "var" and not sub[3]:
                        uses.append((sub[1], len(sub[2]), order))
    return decls, uses


def judge(c):
    text, cfgmap = build(c)
    m = tool.mods()
    cc = m["configs"].CompilerConfigs(string_configs=m["configs"].StringConfigs(strname_to_size=cfgmap)) if cfgmap else None
    r = tool.convert(text, default_str_storage=c["storage"], initialize_vars=c["init"], compiler_configs=cc)
    if not r.ok:
        return [("refused", r.kind)] if not r.refused else []
    try:
        procs = S.parse(r.text)
    except S.B09SyntaxError as e:
        if "array size" in str(e):
            return [("array-dimensions", f"the declaration cannot mean the requested size: {e}")]
        return []
    decls, uses = declarations(procs)
    v = []
    # (b) nothing declared twice
    seen = {}
    for nm, dims, typ, order in decls:
        key = nm.lower()
        if key in seen:
            v.append(("declared-twice", f"{nm} is declared more than once"))
            break
        seen[key] = (dims, typ, order)
    first_use = {}
    for nm, ns, order in uses:
        first_use.setdefault(nm.lower(), (ns, order))
    # (a) arrays
    for nm, (ns, order) in sorted(first_use.items()):
        if nm.startswith("arr_"):
            if nm not in seen:
                v.append(("array-undeclared", f"{nm} is used with {ns} subscript(s) but never declared"))
                continue
            dims, typ, dorder = seen[nm]
            if dorder > order:
                v.append(("array-declared-after-use", f"{nm} is declared after its first use"))
            if nm == "arr_v" or nm == "arr_v$":
                if c["dim"] and c["dim"] != "scalar":
                    want = tuple(int(x[2:], 16) + 1 if x.startswith("&H") else int(x) + 1 for x in c["dim"].split(","))
                else:
                    want = (11,) * (c["nd"] or 1)
                if dims != want:
                    v.append(("array-dimensions", f"{nm} declared with dimensions {dims}, expected {want}"))
    # (c) strings
    if c["storage"] != 32:
        for nm, (ns, order) in sorted(first_use.items()):
            if not nm.endswith("$"):
                continue
            if nm not in seen:
                v.append(("string-undeclared", f"string {nm} appears but has no declaration (default size {c['storage']} requested)"))
                continue
            dims, typ, dorder = seen[nm]
            want = c["storage"]
            if nm == "v$" and c["dim"] == "scalar" and c["cfg"] == "this":
                want = 100
            if nm == "arr_v$" and c["dim"] and c["dim"] != "scalar" and c["cfg"] == "this":
                want = 100
            if typ is None or typ[0] != "STRING" or typ[1] != want:
                v.append(("string-size", f"string {nm} declared as {typ}, expected STRING[{want}]"))
    return v


def feats(c):
    f = ({"ctx:" + c["ctx"]} if c.get("ctx") else set()) | {"pos:" + c["pos"], "kind:" + c["kind"], "dimmed" if c["dim"] else "not-dimmed", "storage:%d" % c["storage"], "cfg:" + c["cfg"]}
    if c["nd"]:
        f.add("subscripts:%d" % c["nd"])
        if c["nd"] >= 2 and not c["dim"]:
            f.add("implicit-array-dims>=2")
    if c["kind"] == "z" and not c["dim"]:
        f.add("implicit-string-array")
    if c["pos"] in ("read", "input", "line-input", "varptr"):
        f.add("unvisited-position")
    return f


def work(chunk):
    return [judge(c) for c in chunk]


EXTRA = [
    # (re-DIMensioning is a ?DD ERROR in Color BASIC: such programs are outside the fragment and not generated)
    ("joystk", "10 A=JOYSTK(0)\n", {}, ["uses-joystk"]),
    ("joystk-twice", "10 A=JOYSTK(0):B=JOYSTK(1)\n", {}, ["uses-joystk"]),
    ("two-strings", '10 A$="1":B$=A$+"2":PRINT A$;B$;STR$(1)\n', {"default_str_storage": 80}, []),
    ("two-arrays", "10 DIM A(3),B$(2)\n20 A(1)=C(2):B$(1)=D$(1)\n", {"default_str_storage": 80}, ["implicit-string-array"]),
    ("hbuff", "10 HBUFF 1,10\n", {}, []),
    ("tmp-strings", '10 PRINT HEX$(1);STR$(2);INKEY$\n', {"default_str_storage": 64}, []),
]


def judge_extra(text, opts):
    r = tool.convert(text, **opts)
    if not r.ok:
        return []
    try:
        procs = S.parse(r.text)
    except S.B09SyntaxError:
        return []
    decls, uses = declarations(procs)
    v = []
    seen = {}
    for nm, dims, typ, order in decls:
        if nm.lower() in seen:
            v.append(("declared-twice", f"{nm} is declared more than once"))
        seen[nm.lower()] = (dims, typ, order)
    st = opts.get("default_str_storage", 32)
    if st != 32:
        for nm, ns, order in uses:
            if nm.endswith("$"):
                d = seen.get(nm.lower())
                if d is None:
                    v.append(("string-undeclared", f"string {nm} has no declaration"))
                elif d[1] is None or d[1][1] != st:
                    v.append(("string-size", f"string {nm} declared as {d[1]}, expected STRING[{st}]"))
    for nm, ns, order in uses:
        if nm.lower().startswith("arr_") and nm.lower() not in seen:
            v.append(("array-undeclared", f"{nm} never declared"))
    return sorted(set(v))


def same_name_cases():
    """one base name used both as a scalar and as an array (string and numeric)"""
    out = []
    for isstr in (False, True):
        sfx = "$" if isstr else ""
        lit = '"S"' if isstr else "5"
        for dim in (None, "array", "scalar", "both"):
            if dim in ("scalar", "both") and not isstr:
                continue
            for storage in (32, 80):
                for cfg in ("none", "scalar", "array"):
                    if cfg != "none" and not isstr:
                        continue
                    for init in (False, True):
                        lines = []
                        if dim == "array":
                            lines.append(f"10 DIM V{sfx}(5)")
                        elif dim == "scalar":
                            lines.append(f"10 DIM V{sfx}")
                        elif dim == "both":
                            lines.append(f"10 DIM V{sfx},V{sfx}(5)")
                        lines.append(f"20 V{sfx}={lit}:V{sfx}(1)=V{sfx}")
                        lines.append(f"30 PRINT V{sfx};V{sfx}(1)")
                        out.append({"text": "\n".join(lines) + "\n", "isstr": isstr, "dim": dim, "storage": storage, "cfg": cfg, "init": init})
    return out


def judge_same(c):
    m = tool.mods()
    cfgmap = {"V$": 100} if c["cfg"] == "scalar" else ({"V$()": 120} if c["cfg"] == "array" else {})
    cc = m["configs"].CompilerConfigs(string_configs=m["configs"].StringConfigs(strname_to_size=cfgmap)) if cfgmap else None
    r = tool.convert(c["text"], default_str_storage=c["storage"], initialize_vars=c["init"], compiler_configs=cc)
    if not r.ok:
        return []
    try:
        procs = S.parse(r.text)
    except S.B09SyntaxError:
        return []
    decls, uses = declarations(procs)
    v = []
    seen = {}
    for nm, dims, typ, order in decls:
        if nm.lower() in seen:
            v.append(("declared-twice", f"{nm} is declared more than once"))
        seen[nm.lower()] = (dims, typ, order)
    sfx = "$" if c["isstr"] else ""
    arr = "arr_v" + sfx
    if arr not in seen:
        v.append(("array-undeclared", f"{arr} never declared"))
    else:
        want = (6,) if c["dim"] in ("array", "both") else (11,)
        if seen[arr][0] != want:
            v.append(("array-dimensions", f"{arr} declared {seen[arr][0]}, expected {want}"))
    if c["isstr"] and c["storage"] != 32:
        for nm, want in (("v$", 100 if (c["cfg"] == "scalar" and c["dim"] in ("scalar", "both")) else c["storage"]),
                         ("arr_v$", 120 if (c["cfg"] == "array" and c["dim"] in ("array", "both")) else c["storage"])):
            d = seen.get(nm)
            if d is None:
                v.append(("string-undeclared", f"string {nm} has no declaration (default size {c['storage']})"))
            elif d[1] is None or d[1][0] != "STRING" or d[1][1] != want:
                v.append(("string-size", f"string {nm} declared as {d[1]}, expected STRING[{want}]"))
    return v


def work_same(chunk):
    return [judge_same(c) for c in chunk]


# ------------------------------------------------------------------ several DIM statements
MD_ITEMS = [("A$", None), ("N", 4), ("B$", None), ("M$", 2)]


def multi_dim_cases():
    """every split of the DIM items over 1..4 consecutive DIM statements x item order x layout x storage x size map x init"""
    out = []
    for order in (MD_ITEMS, list(reversed(MD_ITEMS))):
        n = len(order)
        for cuts in itertools.product([False, True], repeat=n - 1):
            groups, cur = [], [order[0]]
            for i, c in enumerate(cuts):
                if c:
                    groups.append(cur)
                    cur = []
                cur.append(order[i + 1])
            groups.append(cur)
            dims = ["DIM " + ",".join(nm + (f"({b})" if b is not None else "") for nm, b in g) for g in groups]
            for layout in ("lines", "colon", "spread"):
                use = 'A$="HELLO":B$=A$+"!":N(1)=2:M$(1)=B$:PRINT A$;B$;C$;N(1);M$(1)'
                if layout == "lines":
                    body = dims + [use]
                elif layout == "colon":
                    body = [":".join(dims), use]
                else:
                    body = []
                    for d in dims:
                        body += [d, 'C$=C$+"x"']
                    body.append(use)
                text = "".join(f"{10 * (i + 1)} {b}\n" for i, b in enumerate(body))
                for storage in (32, 80):
                    for cfg in ({}, {"A$": 100}, {"B$": 100}, {"B$": 100, "M$()": 120, "C$": 200, "N$()": 90}):
                        for init in (False, True):
                            out.append({"text": text, "storage": storage, "cfg": cfg, "init": init, "groups": len(groups), "layout": layout})
    return out


def judge_multi(c):
    m = tool.mods()
    cc = m["configs"].CompilerConfigs(string_configs=m["configs"].StringConfigs(strname_to_size=c["cfg"])) if c["cfg"] else None
    r = tool.convert(c["text"], default_str_storage=c["storage"], initialize_vars=c["init"], compiler_configs=cc)
    if not r.ok:
        return [("refused", r.kind)] if not r.refused else []
    try:
        procs = S.parse(r.text)
    except S.B09SyntaxError:
        return []
    decls, uses = declarations(procs)
    v = []
    seen = {}
    for nm, dims, typ, order in decls:
        if nm.lower() in seen:
            v.append(("declared-twice", f"{nm} is declared more than once ({seen[nm.lower()][1]} and {typ})"))
        else:
            seen[nm.lower()] = (dims, typ, order)
    for nm, want in (("arr_n", (5,)), ("arr_m$", (3,))):
        if nm not in seen:
            v.append(("array-undeclared", f"{nm} never declared"))
        elif seen[nm][0] != want:
            v.append(("array-dimensions", f"{nm} declared {seen[nm][0]}, expected {want}"))
    first_use = {}
    for nm, ns, order in uses:
        first_use.setdefault(nm.lower(), order)
    for nm in ("arr_n", "arr_m$"):
        if nm in seen and nm in first_use and seen[nm][2] > first_use[nm]:
            v.append(("array-declared-after-use", f"{nm} is declared after its first use"))
    if c["storage"] != 32:
        want = {"a$": c["cfg"].get("A$", c["storage"]), "b$": c["cfg"].get("B$", c["storage"]), "c$": c["storage"], "arr_m$": c["cfg"].get("M$()", c["storage"])}
        for nm, w in want.items():
            d = seen.get(nm)
            if d is None:
                v.append(("string-undeclared", f"string {nm} has no declaration (default size {c['storage']})"))
            elif d[1] is None or d[1][0] != "STRING" or d[1][1] != w:
                v.append(("string-size", f"string {nm} declared as {d[1]}, expected STRING[{w}]"))
    return v


def work_multi(chunk):
    return [judge_multi(c) for c in chunk]


# ------------------------------------------------------------------ string sizes inside the bundled procedures
LIB_PROGRAMS = ['10 HDRAW "U1"\n', '10 PLAY "C"\n', '10 A$=STRING$(2,"X")\n', '10 A=INSTR(1,"AB","B")\n', '10 A$="T4C":PLAY A$:HDRAW A$:PRINT STRING$(3,A$);INSTR(1,A$,"C")\n']


def library_placeholders():
    """{procedure name: [variable names declared with the string-size placeholder]} read from the live ecb.b09"""
    import os
    text = open(os.path.join(core.REPO, "coco", "resources", "ecb.b09"), encoding="latin-1").read()
    out = {}
    cur = None
    for ln in re.split(r"\r\n|\r|\n", text):
        m = re.match(r"(?i)\s*procedure\s+(\S+)", ln)
        if m:
            cur = m.group(1).lower()
            continue
        m = re.match(r"(?i)\s*(param|dim)\s+([^:]+):\s*STRING<<>>", ln)
        if m and cur:
            out.setdefault(cur, []).extend(x.strip().lower() for x in m.group(2).split(","))
    return out


def judge_library(text, storage):
    r = tool.convert(text, default_str_storage=storage, output_dependencies=True, procname="p")
    if not r.ok:
        return []
    v = []
    if "<<>>" in r.text:
        ln = [x for x in re.split(r"\r\n|\r|\n", r.text) if "<<>>" in x][0]
        v.append(("placeholder-survives", f"the bundle still contains a string-size placeholder: {ln.strip()!r}"))
    try:
        procs = S.parse(re.sub(r"(?i)STRING<<>>", "STRING", r.text))
    except S.B09SyntaxError:
        return v
    want = library_placeholders()
    for p in procs:
        names = want.get(p.name.lower())
        if not names:
            continue
        found = {}
        for st in S.walk(p.body):
            if st.kind in ("dim", "param"):
                for grp, typ in st.a["groups"]:
                    for nm, dims in grp:
                        found[nm.lower()] = typ
        for nm in names:
            typ = found.get(nm)
            if typ is None or typ[0] != "STRING" or (typ[1] or 32) != storage:
                v.append(("library-string-size", f"{p.name}: {nm} is declared {typ}, the library asks for the requested size STRING[{storage}]"))
    return v


def config_name_cases():
    out = []
    for nm in ("A", "BC", "D1", "Z9", "QQ"):
        for storage in (32, 80):
            for keys in (("scalar",), ("array",), ("scalar", "array")):
                cfg = {}
                if "scalar" in keys:
                    cfg[nm + "$"] = 100
                if "array" in keys:
                    cfg[nm + "$()"] = 120
                for dimmed in ((True, True), (True, False), (False, True), (False, False)):  # (scalar DIMmed, array DIMmed)
                    lines = []
                    d = ([f"{nm}$"] if dimmed[0] else []) + ([f"{nm}$(5)"] if dimmed[1] else [])
                    if d:
                        lines.append("10 DIM " + ",".join(d))
                    lines.append(f'20 {nm}$="X":{nm}$(1)={nm}$+"Y":PRINT {nm}$;{nm}$(1)')
                    out.append({"text": "\n".join(lines) + "\n", "nm": nm, "storage": storage, "cfg": cfg, "dimmed": dimmed})
    return out


def judge_config_name(c):
    m = tool.mods()
    cc = m["configs"].CompilerConfigs(string_configs=m["configs"].StringConfigs(strname_to_size=c["cfg"]))
    r = tool.convert(c["text"], default_str_storage=c["storage"], compiler_configs=cc)
    if not r.ok:
        return []
    try:
        procs = S.parse(r.text)
    except S.B09SyntaxError:
        return []
    decls, uses = declarations(procs)
    seen = {}
    v = []
    for nm, dims, typ, order in decls:
        if nm.lower() in seen:
            v.append(("declared-twice", f"{nm} is declared more than once"))
        seen[nm.lower()] = (dims, typ, order)
    k = c["nm"][:2].lower()
    want = {k + "$": c["cfg"].get(c["nm"] + "$") if c["dimmed"][0] else None, "arr_" + k + "$": c["cfg"].get(c["nm"] + "$()") if c["dimmed"][1] else None}
    for ident, cfgsize in want.items():
        size = cfgsize if cfgsize is not None else c["storage"]
        d = seen.get(ident)
        if size == 32 and cfgsize is None:
            continue  # default size: no explicit declaration promised
        if d is None:
            v.append(("string-undeclared", f"string {ident} has no declaration (expected STRING[{size}])"))
        elif d[1] is None or d[1][0] != "STRING" or (d[1][1] or 32) != size:
            v.append(("string-size", f"string {ident} declared as {d[1]}, expected STRING[{size}] (configuration {c['cfg']}, default {c['storage']}, DIMmed scalar/array {c['dimmed']})"))
    return v


def judge_cli_sizes(scratch):
    """decb_to_b09 -s N: every string of the program is declared STRING[N] for N over the boundary values of the option"""
    import importlib
    import io
    import os
    import sys
    m = importlib.import_module("coco.decb_to_b09")
    d = os.path.join(scratch, "cli10")
    os.makedirs(d, exist_ok=True)
    text = '10 DIM M$(2)\n20 A$="X":B$=A$+STR$(1):M$(1)=B$:N$(2)=HEX$(3)\n'
    v = []
    n = 0
    for size in (1, 31, 33, 80, 255, 256, 300, 1000, 32767):
        for extra in ([], ["-D"], ["-l", "-z"]):
            inp, outp = os.path.join(d, "prog.bas"), os.path.join(d, "prog.b09")
            with open(inp, "w") as f:
                f.write(text)
            old = sys.stdout, sys.stderr
            err = None
            try:
                sys.stdout, sys.stderr = io.StringIO(), io.StringIO()
                try:
                    m.start(["-s", str(size)] + extra + [inp, outp])
                except SystemExit as e:
                    err = f"SystemExit({e.code})"
                except Exception as e:  # noqa
                    err = type(e).__name__
            finally:
                sys.stdout, sys.stderr = old
            n += 1
            if err:
                continue  # refusals / crashes are C15's business
            out = open(outp, "r", newline="").read().replace("\r", "\n")
            idx = [mm.start() for mm in re.finditer(r"(?im)^procedure\s", out)]
            body = out[idx[-1]:] if idx else out
            for nm in ("A$", "B$", "arr_M$", "arr_N$", "tmp_1$"):
                mm = re.search(r"(?im)^\s*(?:\d+\s+)?dim\s+" + re.escape(nm) + r"(?:\([^)]*\))?\s*:\s*string\[(\d+)\]", body)
                if nm == "tmp_1$" and nm not in body:
                    continue
                if not mm:
                    v.append(("string-undeclared", f"decb_to_b09 -s {size} {' '.join(extra)}: {nm} has no STRING[{size}] declaration"))
                elif int(mm.group(1)) != size:
                    v.append(("string-size", f"decb_to_b09 -s {size} {' '.join(extra)}: {nm} is declared STRING[{mm.group(1)}], requested {size}"))
    return n, v


def run(run):
    run.rule = ("programs = position x kind x (DIMmed with 1-3 constant/hex bounds | not) x storage {32,80} x size map x initialize_vars, one variable under test each; "
                "distinct = distinct abstract cases; non-trivial = accepted and parsed")
    run.assumptions = ["declarations and uses are read from the output parsed by vf/b09/syntax.py"]
    cases = gen(run)
    i = 0
    n = 0
    for res in core.pmap(work, cases, chunk=100):
        for verdicts in res:
            c = cases[i]
            i += 1
            run.evaluations += 1
            n += 1
            if i % 1500 == 1:
                run.sample({"program": build(c)[0], "config": build(c)[1], "storage": c["storage"], "initialize_vars": c["init"], "verdicts": verdicts})
            for sym, detail in verdicts:
                run.violation(sym, feats(c), {k: c[k] for k in c}, f"{c['pos']} {c['ref']} dim={c['dim']} storage={c['storage']} cfg={c['cfg']} init={c['init']}: {detail}\nsource: {build(c)[0]!r}")
    same = same_name_cases()
    run.states += len(same)
    run.transitions += len(same)
    j = 0
    for res in core.pmap(work_same, same, chunk=50):
        for verdicts in res:
            c = same[j]
            j += 1
            run.evaluations += 1
            n += 1
            for sym, detail in verdicts:
                run.violation(sym, {"same-name", "dim:%s" % c["dim"], "cfg:" + c["cfg"], "storage:%d" % c["storage"]}, dict(c, same=True), f"same-name dim={c['dim']} storage={c['storage']} cfg={c['cfg']} init={c['init']}: {detail}\nsource: {c['text']!r}")
    multi = multi_dim_cases()
    run.states += len(multi)
    run.transitions += len(multi)
    j = 0
    for res in core.pmap(work_multi, multi, chunk=50):
        for verdicts in res:
            c = multi[j]
            j += 1
            run.evaluations += 1
            n += 1
            for sym, detail in verdicts:
                run.violation(sym, {"multi-dim", "dim-statements:%d" % c["groups"], "layout:" + c["layout"], "storage:%d" % c["storage"]}, dict(c, multi=True),
                              f"several DIM statements ({c['groups']}, {c['layout']}) storage={c['storage']} cfg={c['cfg']} init={c['init']}: {detail}\nsource: {c['text']!r}")
    for text in LIB_PROGRAMS:
        for storage in (32, 80, 255):
            run.evaluations += 1
            run.states += 1
            run.transitions += 1
            n += 1
            for sym, detail in judge_library(text, storage):
                run.violation(sym, {"library", "storage:%d" % storage}, {"library": True, "text": text, "storage": storage}, f"bundled procedures, storage={storage}: {detail}\nsource: {text!r}")
    for c in config_name_cases():
        run.states += 1
        run.transitions += 1
        run.evaluations += 1
        n += 1
        for sym, detail in judge_config_name(c):
            run.violation(sym, {"config-name", "name-len:%d" % len(c["nm"]), "storage:%d" % c["storage"]}, dict(c, config_name=True), f"configured name {c['nm']}: {detail}\nsource: {c['text']!r}")
    ncli, vcli = judge_cli_sizes(run.scratch_dir())
    run.states += ncli
    run.transitions += ncli
    run.evaluations += ncli
    n += ncli
    for sym, detail in sorted(set(vcli)):
        run.violation(sym, {"cli", "cli-size"}, {"cli": True}, detail)
    for name, text, opts, fl in EXTRA:
        for init in (False, True):
            o = dict(opts)
            o["initialize_vars"] = init
            run.evaluations += 1
            run.states += 1
            run.transitions += 1
            for sym, detail in judge_extra(text, o):
                run.violation(sym, set(fl) | {"extra:" + name}, {"extra": name, "text": text, "opts": o}, f"{name}: {detail}\nsource: {text!r}")
    run.distinct_n = n


def replay(case):
    if case.get("config_name"):
        return {"violations": [list(x) for x in judge_config_name(case)]}
    if case.get("multi"):
        return {"violations": [list(x) for x in judge_multi(case)]}
    if case.get("library"):
        return {"violations": [list(x) for x in judge_library(case["text"], case["storage"])]}
    if case.get("same"):
        return {"violations": [list(x) for x in judge_same(case)]}
    if "extra" in case:
        return {"violations": [list(x) for x in judge_extra(case["text"], case["opts"])]}
    return {"violations": [list(x) for x in judge(case)]}
