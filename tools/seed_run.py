#!/venv/bin/python
"""Run registered checks against seeded mutants in scratch worktrees (VERIF_REPO), in parallel.
usage: seed_run.py [--tier quick] [--props C16,C18] [--ids C16a,...] [--all-checks]
By default each mutant is run against the check of its own property."""
import argparse, json, os, shutil, subprocess, sys, time
from concurrent.futures import ThreadPoolExecutor

DST = "/verif/seeded"


def sh(cmd, cwd=None, env=None, timeout=7200):
    p = subprocess.run(cmd, cwd=cwd, env=env, capture_output=True, text=True, timeout=timeout)
    return p.returncode, p.stdout + p.stderr


def one(job):
    sid, props, tier = job
    wt = f"/tmp/sr/{sid}"
    sh(["git", "-C", "/repo", "worktree", "remove", "--force", wt])
    shutil.rmtree(wt, ignore_errors=True)
    os.makedirs("/tmp/sr", exist_ok=True)
    sh(["git", "-C", "/repo", "worktree", "add", "--detach", wt, "HEAD"])
    out = {}
    try:
        rc, o = sh(["git", "-C", wt, "apply", os.path.join(DST, sid, "patch.diff")])
        if rc:
            rc, o = sh(["git", "-C", wt, "apply", "--3way", os.path.join(DST, sid, "patch.diff")])
        if rc:
            print(sid, "APPLY FAILED", o[-300:])
            return sid, {"error": "apply failed " + o}
        for p in props:
            env = dict(os.environ, VERIF_REPO=wt, VERIF_PROCS=os.environ.get("SEED_PROCS", "4"), VERIF_EVIDENCE_DIR=f"/tmp/sr/ev_{sid}")
            t = time.time()
            rc, o = sh(["/venv/bin/python", "/verif/run.py", p, "--tier", tier], env=env)
            viol = [l for l in o.splitlines() if l.startswith("VIOLATION")]
            syms = [l.strip() for l in o.splitlines() if l.strip().startswith("symptom=")]
            out[p] = {"rc": rc, "violations": len(viol), "first": syms[:3], "wall": round(time.time() - t, 1), "tail": o[-300:] if rc not in (0, 1) else ""}
    finally:
        sh(["git", "-C", "/repo", "worktree", "remove", "--force", wt])
        shutil.rmtree(wt, ignore_errors=True)
        shutil.rmtree(f"/tmp/sr/ev_{sid}", ignore_errors=True)
    return sid, out


def main():
    ap = argparse.ArgumentParser()
    ap.add_argument("--tier", default="quick")
    ap.add_argument("--props")
    ap.add_argument("--ids")
    ap.add_argument("--all-checks", action="store_true")
    ap.add_argument("-j", type=int, default=4)
    a = ap.parse_args()
    have = sorted(f[:-3].upper() for f in os.listdir("/verif/vf/checks") if f.startswith("c") and f.endswith(".py"))
    jobs = []
    for sid in sorted(os.listdir(DST)):
        mp = os.path.join(DST, sid, "meta.json")
        if not os.path.exists(mp):
            continue
        meta = json.load(open(mp))
        if not meta.get("verified") or meta.get("status"):
            continue  # obsolete / neutralised by a later fix: commit (see meta.json)
        if a.ids and sid not in a.ids.split(","):
            continue
        props = have if a.all_checks else [meta["property"]]
        if a.props:
            props = [p for p in (a.props.split(",") if a.all_checks or True else props)] if a.all_checks else [p for p in props if p in a.props.split(",")]
        props = [p for p in props if p in have]
        if props:
            jobs.append((sid, props, a.tier))
    res_p = os.path.join(DST, "results.json")
    results = json.load(open(res_p)) if os.path.exists(res_p) else {}
    with ThreadPoolExecutor(a.j) as ex:
        for sid, out in ex.map(one, jobs):
            results.setdefault(sid, {}).update(out if "error" not in out else {"_error": out})
            det = {p: ("DETECTED" if v.get("rc") == 1 and v.get("violations") else ("broken rc=%s" % v.get("rc") if v.get("rc") not in (0, 1) else "missed")) for p, v in out.items() if isinstance(v, dict) and "rc" in v}
            print(sid, det, {p: v.get("first", [])[:1] for p, v in out.items() if isinstance(v, dict)})
    json.dump(results, open(res_p, "w"), indent=1, sort_keys=True)


if __name__ == "__main__":
    main()
