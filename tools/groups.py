#!/venv/bin/python
"""Summarise `VERIF_DEBUG=1 run.py ...` GROUP lines: merge feature sets after dropping noise features."""
import re, sys, collections
drop = re.compile(sys.argv[1]) if len(sys.argv) > 1 else re.compile(r"^(ctx:|k=|form:|lit-ctx:|expr$|ctx$|cond$|fn$|lit$|str$|function$|nested$|string$|literal$)")
c = collections.Counter(); ex = {}
for l in sys.stdin:
    m = re.match(r"GROUP \('([^']+)', \((.*?)\)\) (\d+) \| (.*)", l)
    if not m: continue
    feats = tuple(sorted(f for f in re.findall(r"'([^']+)'", m.group(2)) if not drop.search(f)))
    k = (m.group(1), feats); c[k] += int(m.group(3)); ex.setdefault(k, m.group(4)[:int(sys.argv[2]) if len(sys.argv) > 2 else 170])
for k, v in sorted(c.items(), key=lambda kv: -kv[1]): print(v, k, '|', ex[k])
