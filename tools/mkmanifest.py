#!/venv/bin/python
"""Regenerates /verif/MANIFEST.json from the table below and validates it."""
import json
import os
import sys

HERE = os.path.dirname(os.path.dirname(os.path.abspath(__file__)))

CHECKS = {
    # id: (category, technique, level text, level note, design ref)
    "C16": ("model_checking",
            "bounded-exhaustive enumeration of uncompressed files (byte-value x palette x mode x position factors) decoded by the real tools, compared with a reference renderer",
            "Every byte value, every (slot, code) palette pair for the small formats, every pixel mode and every layout variant is pushed through the real decoder and compared sample by sample with an independent rendering; the decoders are byte-local so the factors cover the pixel function completely within the stated bounds.",
            "Trusted: reference layout writers and colour function in vf/img/formats.py (my reading of the formats); MGE composite table only judged structurally and against mge_viewer2.CMP.",
            "DESIGN.md §2 C16"),
    "C17": ("model_checking",
            "deviation-bounded exhaustive exploration of a nondeterministic reference encoder's choice tree; every encoding decoded by the real tool and compared with the original picture; composite-palette MGE judged differentially against the decode of its uncompressed form",
            "All encodings of structured pictures reachable with <= d non-default encoder choices (run length/splitting, literal vs repeat, escape use, CM3 copy-left/copy-up/literal/raw line, VEF packet forms and padding) are decoded by the real decoder; d=1 quick, d=2 thorough; choice points are opened at the first/last runs, lines and records (stated in evidence caps).",
            "Trusted: validity of encodings = reference encoder in vf/img/formats.py. RAT pictures avoid low nibbles >= 8 except for the dedicated known-finding picture.",
            "DESIGN.md §2 C17"),
    "C18": ("model_checking",
            "exhaustive enumeration of the decoders' option cubes (width x rows x skip x pixel mode x header variant x file/pipe) on well-formed files, outputs parsed by an independent PNM/PNG reader",
            "Every option combination inside the stated cube is run through the real start() entry; header dimensions, exact payload size, skip equivalence and pipe/file equality are checked on each.",
            "Trusted: independent PNM/PNG readers; 'valid option' = accepted by the tool's own argparse validators.",
            "DESIGN.md §2 C18"),
    "C19": ("fault_enumeration",
            "exhaustive fault enumeration: every prefix, every header/control byte x value alphabet, appended bytes, all short strings, for a minimal valid file of each format, run through the real decoders",
            "Every enumerated damaged file is decoded in-process; outcome must be a report (exception / non-zero exit / MAX's removal) or a file that is complete w.r.t. its own header. Quick uses a 12-value alphabet and a stated subset of prefixes for the 16 kB raw VEF; thorough uses all 256 values and all prefixes.",
            "An escaping exception counts as 'reported'. Known genuine defects are matched by input-side features computed by reference stream analysers.",
            "DESIGN.md §2 C19"),
    "C15": ("model_checking",
            "bounded-exhaustive input exploration: every 1-token (2 in thorough) mutation of every catalogue statement, every statement in every control context, literal spellings x contexts, all short strings over a hostile alphabet, option cube, config maps, size ladders and CLI names, all run through the real convert()/start()",
            "Each enumerated input is converted by the real code under a 30 s alarm; the outcome must be text or one of the documented refusal exceptions; acceptance must not depend on options or the procedure name.",
            "Documented refusals = parsimonious ParseError, compiler.ParseError, LineNumberTooLargeException, pydantic ValidationError; VisitationError counts as internal.",
            "DESIGN.md §2 C15"),
    "C12": ("model_checking",
            "exhaustive exploration of the only nondeterminism source (set iteration order, owned by rebinding `set` to an explorer-controlled ChoiceSet) + exhaustive call-history enumeration in fresh forked processes + hash-seed conformance sweep",
            "For every program x option set every iteration order of each iterated set (<= d simultaneous deviations) must yield identical bytes; every call history up to the depth, run in a fresh process, must leave every alphabet element's output equal to a fresh process; 16+ PYTHONHASHSEED values agree.",
            "Brace-written set literals would not be owned by the seam (none exist today); the seed sweep is the only cover for them.",
            "DESIGN.md §2 C12"),
    "C07": ("model_checking",
            "bounded-exhaustive program enumeration (catalogue x control contexts, templates x operand shapes, ordered statement pairs, all 1-2 character names, bundled examples x option cube) through the real convert(); every output parsed by a BASIC09 structural parser",
            "Every accepted program in the enumerated space is parsed by the reference BASIC09 statement parser (labels, backslash separation, block nesting, complete operators/calls, built-in arity, closed literals, reserved words) plus leak detectors for Python object text.",
            "Trusted: vf/b09/syntax.py (reserved words bound to the BASIC09 binary's token table, ecb.b09 must parse). Programs whose source has unbalanced FOR/NEXT are outside the fragment.",
            "DESIGN.md §2 C07"),
    "C13": ("model_checking",
            "bounded-exhaustive enumeration of runtime-using programs (singles, pairs, templates x operand shapes, hostile user text x text positions, procedure names, string sizes) with an independent reachability closure over the parsed library call graph; user text (literals, DATA items, remarks, hostile look-alikes of calls / headers / placeholders) must appear verbatim in the user's procedure",
            "For each program the bundle must equal: sorted closure of the RUN graph (library parsed by the reference BASIC09 parser), each once, program last; all RUNs resolve; placeholders replaced by the requested size; user procedure identical to the dependency-free output.",
            "Trusted: call graph from vf/b09/syntax.py parse of ecb.b09; OS-9 modules gfx, gfx2, syscall, inkey.",
            "DESIGN.md §2 C13"),
    "C14": ("model_checking",
            "bounded-exhaustive enumeration of RUN-producing programs (catalogue x contexts, templates x operand shapes x contexts, special constructs) + every RUN inside the library, checked against PARAM/TYPE declarations parsed from the live library",
            "Every RUN of a bundled procedure in every enumerated output and in ecb.b09 itself is checked for existence, arity and string/numeric/record kind against the parsed PARAM lists; prologue TYPE declarations are compared field for field with the library's.",
            "Trusted: vf/b09/syntax.py + three-kind typer vf/b09/typer.py. Outputs that do not parse are examined textually for empty/missing arguments.",
            "DESIGN.md §2 C14"),
    "C06": ("model_checking",
            "bounded-exhaustive enumeration of programs with arbitrary reference graphs (line-number sets x reference-bearing constructs x all targets incl. self / line 0 / missing line) x filter x add_suffix, against the generator's own reference graph; the same jump/label rule is applied to every bundled procedure of the live ecb.b09",
            "For every enumerated program the expected outcome (documented refusal, or the exact label set, jump targets, marker order and dispatcher routing) is computed from the generator's reference graph and compared with the parsed output of the real convert().",
            "Trusted: vf/b09/syntax.py; dispatcher routing is interpreted for the three statement forms it uses; 'errnum' is bound to the injected error number (its being undefined is a separate known finding).",
            "DESIGN.md §2 C06"),
    "C09": ("model_checking",
            "exhaustive enumeration of every variable name of length <= 3 (34 658 names; + length 4 over a reduced tail alphabet in thorough) in all four kinds and 13 syntactic positions, identifiers read from the parsed output; plus every reserved word of Color BASIC / BASIC09 and every identifier the tool generates, alone and embedded in a name, one program per syntactic position; plus programs that make the tool emit each of its own identifiers",
            "For every name the multiset of user identifiers on every emitted line must be exactly name[:2]+suffix (arr_ for arrays), in the pre-initialisation prologue too; user identifiers never match generated ones. Since the map is checked to be the identity on (first two characters, suffix, kind) for every name, the pair property follows.",
            "Trusted: vf/b09/syntax.py for reading identifiers. Names starting with DO/PI/SQ are the C07 reserved-word finding and are only counted here.",
            "DESIGN.md §2 C09"),
    "C10": ("model_checking",
            "exhaustive enumeration of (syntactic position x variable kind x DIM form x string-size option x size map x initialize_vars) programs, one variable under test each, plus same-name scalar/array programs; declarations and uses read from the parsed output; all splits of the DIM items over several DIM statements, the variable under test inside every IF / ELSE IF arm, the string sizes of the bundled library procedures, and the command line's -s over its boundary values",
            "For every enumerated program: each array declared exactly once before first use with bound+1 (11 per used dimension when never DIMensioned), no identifier declared twice, and with a non-32 default every string identifier (temporaries included) carries STRING[n] with the configured/default n.",
            "Trusted: vf/b09/syntax.py. Re-DIMensioning programs (?DD ERROR in Color BASIC) are outside the fragment.",
            "DESIGN.md §2 C10"),
    "C08": ("model_checking",
            "exhaustive enumeration of layouts of every catalogue statement with <= 2 deviating token boundaries (0/1/2 blanks, guarded boundaries 1/2) + frame variants (LF/CR/CRLF, blank and blank-only lines, NUL, ?, line-number blanks) + literal-internal blanks; all layouts of one abstract program must fall into one outcome class",
            "Every layout in the bound is converted by the real convert(); the set of outcomes per abstract program must have size one (all refused or byte-identical text); content blanks in strings, DATA items and comments must appear verbatim.",
            "Boundary typing (which blanks Color BASIC needs) is the trusted part: identifier/hex literal before letter or digit, number before digit/'.'/non-ELSE 'E'.",
            "DESIGN.md §2 C08"),
    "C11": ("model_checking",
            "exhaustive enumeration of the 5-dimensional option cube (32 option sets, all 80 single-option flips) per corpus program with a metamorphic relation per option, plus all 32 CLI flag subsets (+ config file) through decb_to_b09.start",
            "Each flip must change the text exactly as documented (labels of unreferenced lines stripped / prologue assignments and fill loops added / _ecb_start flag / library + header prepended / STRING[n] annotations); the CLI must write convert(text, mapped options, procname=input stem) with CR line ends.",
            "Relations are computed from the outputs with the reference parser (jump targets) and textual shape patterns for pre-initialisation lines.",
            "DESIGN.md §2 C11"),
    "C03": ("model_checking",
            "bounded-exhaustive program enumeration in six sub-spaces (array forms, DATA/READ item x target lists, PRINT argument lists, INPUT scripts, string-function arguments, read-before-write positions under pre-initialisation), each program executed by a Color BASIC reference interpreter and, translated, by a BASIC09 reference interpreter",
            "Every program in the enumerated sub-spaces is run under both reference models; PRINT token streams, INPUT events, termination and final stores must agree; with initialize_vars the BASIC09 model runs in strict-initialisation mode and reports any read of an unassigned user variable. Uncertain BASIC09 behaviour is UNSPEC (no verdict); string slices past the end are executed under both plausible behaviours.",
            "Trusted: the two language models (vf/decb/model.py, vf/b09/*), bound to the real systems by the token table of the BASIC09 binary, the parse of ecb.b09 and the documented-facts self-test.",
            "DESIGN.md §2 C03, §0.1"),
    "C20": ("model_checking",
            "exhaustive argument enumeration for the three helper procedures, executed from the live ecb.b09 text by the BASIC09 reference interpreter against the Color BASIC model; plus the program-level empty-DATA wiring",
            "ecb_instr on every (start, subject, pattern, preset) over the alphabet/length bound, ecb_string on counts 0..255, ecb_read_filter on every numeric spelling the DATA path produces, and every DATA/READ program with an empty item; both plausible behaviours of BASIC09 string slices past the end are executed and a violation must hold under both.",
            "Trusted: the two language models; INSTR with an empty pattern is UNSPEC (no verdict).",
            "DESIGN.md §2 C20"),
    "C01": ("model_checking",
            "bounded-exhaustive enumeration of expression sentences (all operator sequences x negations x NOT x parenthesis placements up to k operators), IF conditions, statement contexts, literal spellings and function nestings; each evaluated by a Color BASIC reference interpreter (Microsoft precedence table) and, translated, by a BASIC09 reference interpreter (BASIC09's table) on 5-6 valuations",
            "For every sentence in the bound the value of every variable and the branch taken must be equal under both models for every valuation; this decides the property by value/branch equality (re-grouping is only used to explain counterexamples).",
            "Trusted: the two precedence tables and function semantics of the models (documented facts self-test); uncertain BASIC09 behaviour is UNSPEC -> no verdict (counted in evidence).",
            "DESIGN.md §2 C01, Appendix A"),
    "C02": ("model_checking",
            "bounded-exhaustive enumeration of control-flow skeletons (line shapes x statement positions x ~39 control constructs x jump targets, at most 2 constructs) x input vectors x option sets, each executed by the Color BASIC and (translated) the BASIC09 reference interpreter under step horizons",
            "For every skeleton, input vector and option set the PRINT trace, the way the program stops and the final store must agree; Color BASIC terminating while the translation exceeds 20x its step count is non-termination; an unparsable translation of a runnable source is a violation.",
            "Trusted: the two interpreters' control-flow semantics (bottom-tested FOR with FOR-stack search, rest-of-line IF branches, nearest-IF ELSE; BASIC09 top-tested FOR, LOOP/EXITIF). Programs that raise an error in Color BASIC are outside the fragment.",
            "DESIGN.md §2 C02"),
    "C04": ("model_checking",
            "exhaustive enumeration of device statement forms x optional-operand presence x operand shapes (+ ordered pairs on one line); Color BASIC model evaluates the source operands, BASIC09 model executes the translation up to the RUN events; arguments compared by parameter NAME through a role table, positions read from the live library",
            "For every form/shape the runtime procedure, each source operand's value in the parameter the library declares for it, the documented default for every omitted operand, native POKE / speed-poke handling, device-function inputs and the HBUFF prologue are checked.",
            "Trusted: role table vf/checks/c04.py ROLES (Extended/Super Extended BASIC manuals, DESIGN Appendix B); _ecb_start modelled as storing marker values in the display record.",
            "DESIGN.md §2 C04, Appendix B"),
    "C05": ("model_checking",
            "bounded-exhaustive enumeration of statement templates x operand shapes built from convertible functions (single, sibling, nested in each other / in built-ins / in subscripts) with scripted device answers; the BASIC09 model's runtime-call log is compared with the Color BASIC model's evaluation log; each statement is also re-executed through a jump back to its own line, placed in every control context, and the emitted text is checked statically for temporaries read before the text of the same source line assigns them",
            "For every program the sequence of runtime procedure calls (name, input arguments) made by the translation must equal Color BASIC's evaluation order (innermost first, left to right, target subscripts before the right-hand side); reading a temporary that was not assigned is reported by the interpreter; final values agree.",
            "Trusted: evaluation-order rules of the Color BASIC model; device functions answer 10n+1 on their n-th call. STR$'s known trailing blank is neutralised here (judged in C01/C03).",
            "DESIGN.md §2 C05"),
}

PENDING_REASON = "check not built yet in this revision (work in progress; will be claimed when its explorer exists)"


def main():
    props = [json.loads(l)["id"] for l in open(os.path.join(HERE, "properties.jsonl"))]
    checks = []
    for pid in props:
        if pid not in CHECKS:
            continue
        cat, tech, text, note, ref = CHECKS[pid]
        checks.append({
            "property_id": pid,
            "quick_cmd": f"/venv/bin/python /verif/run.py {pid} --tier quick",
            "thorough_cmd": f"/venv/bin/python /verif/run.py {pid} --tier thorough",
            "evidence_file": f"/verif/evidence/{pid}.json",
            "replay_cmd_template": "/venv/bin/python /verif/run.py --replay {path}",
            "engine": "vf",
            "level_claimed": {"category": cat, "text": text, "design_ref": ref},
            "level_note": note,
            "technique": tech,
        })
    man = {
        "version": 1,
        "setup_cmd": "/venv/bin/python -m compileall -q /verif/vf /verif/run.py && /venv/bin/python /verif/run.py --selftest",
        "hooks": {
            "guard": "COCO_TOOLS_VERIF",
            "enable": "no source hooks are needed: every observation point is a public return value, exception, written file or a module-level name rebound from outside; checks import /repo's working tree directly",
            "baseline_off_cmd": "cd /repo && /venv/bin/python -m pytest -ra -q -p no:cacheprovider --timeout=900",
            "source_commits": [],
            "add_only": True,
        },
        "engines": [{
            "name": "vf",
            "path": "/verif/vf",
            "serves_properties": [c["property_id"] for c in checks],
            "kind_free_text": "hand-written explicit-state / choice-tree explorer in Python driving the real coco-tools functions, with DECB and BASIC09 reference models and reference image encoders",
        }],
        "checks": checks,
        "not_applicable": [{"property_id": p, "reason": PENDING_REASON} for p in props if p not in CHECKS],
        "notes": "See DESIGN.md. Known genuine defects are listed in known_findings.json and reported as KNOWN-FINDING lines.",
    }
    with open(os.path.join(HERE, "MANIFEST.json"), "w") as f:
        json.dump(man, f, indent=1)
    try:
        import jsonschema
        jsonschema.validate(man, json.load(open("/root/.vp/MANIFEST.schema.json")))
        print("MANIFEST valid;", len(checks), "checks")
    except ImportError:
        print("jsonschema not available; wrote MANIFEST without validating")


if __name__ == "__main__":
    sys.exit(main())
