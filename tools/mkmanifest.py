#!/venv/bin/python
"""Regenerates /verif/MANIFEST.json from the table below and validates it."""
import json
import os
import sys

HERE = os.path.dirname(os.path.dirname(os.path.abspath(__file__)))

CHECKS = {
    # id: (category, technique, level text, level note, design ref)
    "C16": ("model_checking",
            "bounded-exhaustive enumeration of uncompressed files (byte-value x palette x mode x position factors) decoded by the real tools, compared with a reference renderer",
            "Every byte value, every (slot, code) palette pair for the small formats, every pixel mode and every layout variant is pushed through the real decoder and compared sample by sample with an independent rendering; the decoders are byte-local so the factors cover the pixel function completely within the stated bounds.",
            "Trusted: reference layout writers and colour function in vf/img/formats.py (my reading of the formats); MGE composite table only judged structurally and against mge_viewer2.CMP.",
            "DESIGN.md §2 C16"),
}

PENDING_REASON = "check not built yet in this revision (work in progress; will be claimed when its explorer exists)"


def main():
    props = [json.loads(l)["id"] for l in open(os.path.join(HERE, "properties.jsonl"))]
    checks = []
    for pid in props:
        if pid not in CHECKS:
            continue
        cat, tech, text, note, ref = CHECKS[pid]
        checks.append({
            "property_id": pid,
            "quick_cmd": f"/venv/bin/python /verif/run.py {pid} --tier quick",
            "thorough_cmd": f"/venv/bin/python /verif/run.py {pid} --tier thorough",
            "evidence_file": f"/verif/evidence/{pid}.json",
            "replay_cmd_template": "/venv/bin/python /verif/run.py --replay {path}",
            "engine": "vf",
            "level_claimed": {"category": cat, "text": text, "design_ref": ref},
            "level_note": note,
            "technique": tech,
        })
    man = {
        "version": 1,
        "setup_cmd": "/venv/bin/python -m compileall -q /verif/vf /verif/run.py && /venv/bin/python /verif/run.py --selftest",
        "hooks": {
            "guard": "COCO_TOOLS_VERIF",
            "enable": "no source hooks are needed: every observation point is a public return value, exception, written file or a module-level name rebound from outside; checks import /repo's working tree directly",
            "baseline_off_cmd": "cd /repo && /venv/bin/python -m pytest -ra -q -p no:cacheprovider --timeout=900",
            "source_commits": [],
            "add_only": True,
        },
        "engines": [{
            "name": "vf",
            "path": "/verif/vf",
            "serves_properties": [c["property_id"] for c in checks],
            "kind_free_text": "hand-written explicit-state / choice-tree explorer in Python driving the real coco-tools functions, with DECB and BASIC09 reference models and reference image encoders",
        }],
        "checks": checks,
        "not_applicable": [{"property_id": p, "reason": PENDING_REASON} for p in props if p not in CHECKS],
        "notes": "See DESIGN.md. Known genuine defects are listed in known_findings.json and reported as KNOWN-FINDING lines.",
    }
    with open(os.path.join(HERE, "MANIFEST.json"), "w") as f:
        json.dump(man, f, indent=1)
    try:
        import jsonschema
        jsonschema.validate(man, json.load(open("/root/.vp/MANIFEST.schema.json")))
        print("MANIFEST valid;", len(checks), "checks")
    except ImportError:
        print("jsonschema not available; wrote MANIFEST without validating")


if __name__ == "__main__":
    sys.exit(main())
