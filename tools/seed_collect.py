#!/venv/bin/python
"""Collect sub-agent deliverables from /tmp/wt/Cxx/_out into /verif/seeded/<id>/ and verify them
in scratch worktrees (suite passes with the patch, demo fails with it and passes without)."""
import json, os, shutil, subprocess, sys
from concurrent.futures import ThreadPoolExecutor

SRCS = [("/tmp/wt", ""), ("/tmp/wt2", "2"), ("/tmp/wt3", "3"), ("/tmp/wt4", "4"), ("/tmp/wt5", "5"), ("/tmp/wt6", "6"), ("/tmp/wt7", "7"), ("/tmp/wt8", "8")]
DST = "/verif/seeded"
BASE_CMD = ["/venv/bin/python", "-m", "pytest", "-q", "-p", "no:cacheprovider", "--timeout=900", "-x"]


def sh(cmd, cwd=None, env=None, timeout=1800):
    p = subprocess.run(cmd, cwd=cwd, env=env, capture_output=True, text=True, timeout=timeout)
    return p.returncode, (p.stdout + p.stderr)[-1500:]


def verify(sid):
    d = os.path.join(DST, sid)
    meta_p = os.path.join(d, "meta.json")
    meta = json.load(open(meta_p))
    if meta.get("verified"):
        return sid, "already"
    wt = f"/tmp/sv/{sid}"
    sh(["git", "-C", "/repo", "worktree", "remove", "--force", wt])
    shutil.rmtree(wt, ignore_errors=True)
    os.makedirs("/tmp/sv", exist_ok=True)
    rc, out = sh(["git", "-C", "/repo", "worktree", "add", "--detach", wt, "HEAD"])
    env = dict(os.environ, PYTHONPATH=wt)
    res = {}
    try:
        rc, out = sh(["/venv/bin/python", os.path.join(d, "demo.py")], cwd=wt, env=env)
        res["demo_pristine_rc"] = rc
        rc, out = sh(["git", "-C", wt, "apply", os.path.join(d, "patch.diff")])
        res["apply_rc"] = rc
        if rc:
            res["apply_out"] = out
        rc, out = sh(BASE_CMD, cwd=wt, env=env)
        res["suite_rc"] = rc
        res["suite_tail"] = out.strip().splitlines()[-1] if out.strip() else ""
        rc, out = sh(["/venv/bin/python", os.path.join(d, "demo.py")], cwd=wt, env=env)
        res["demo_mutant_rc"] = rc
        res["demo_mutant_tail"] = out[-400:]
    finally:
        sh(["git", "-C", "/repo", "worktree", "remove", "--force", wt])
        shutil.rmtree(wt, ignore_errors=True)
    ok = res.get("apply_rc") == 0 and res.get("suite_rc") == 0 and res.get("demo_mutant_rc") not in (0, None) and res.get("demo_pristine_rc") == 0
    meta["verified"] = ok
    meta["verification"] = res
    meta["ran"] = "scratch worktree under /tmp/sv: demo on pristine (exit 0), git apply patch.diff, full pytest suite (must pass), demo on mutant (must fail)"
    json.dump(meta, open(meta_p, "w"), indent=1)
    return sid, "OK" if ok else f"FAILED {res}"


def main():
    ids = []
    for SRC, suffix in SRCS:
        if not os.path.isdir(SRC):
            continue
        for c in sorted(os.listdir(SRC)):
            out = os.path.join(SRC, c, "_out")
            if not os.path.isdir(out):
                continue
            for x in "ABC":
                p = os.path.join(out, f"patch{x}.diff")
                if not os.path.exists(p) or not os.path.exists(os.path.join(out, f"demo{x}.py")):
                    continue
                sid = f"{c}{x.lower()}{suffix}"
                d = os.path.join(DST, sid)
                if not os.path.exists(os.path.join(d, "meta.json")):
                    os.makedirs(d, exist_ok=True)
                    shutil.copy(p, os.path.join(d, "patch.diff"))
                    shutil.copy(os.path.join(out, f"demo{x}.py"), os.path.join(d, "demo.py"))
                    note = os.path.join(out, f"note{x}.md")
                    if os.path.exists(note):
                        shutil.copy(note, os.path.join(d, "note.md"))
                    json.dump({"id": sid, "property": c, "source": "independent sub-agent given only the property text and a scratch worktree" + (" (later wave, on the tree with the fix: commits)" if suffix else ""),
                               "needs_to_manifest": open(note).read()[:1500] if os.path.exists(note) else "", "verified": False}, open(os.path.join(d, "meta.json"), "w"), indent=1)
                ids.append(sid)
    ids = [i for i in ids if not json.load(open(os.path.join(DST, i, "meta.json"))).get("status")]
    with ThreadPoolExecutor(6) as ex:
        for sid, r in ex.map(verify, ids):
            print(sid, r)


if __name__ == "__main__":
    main()
